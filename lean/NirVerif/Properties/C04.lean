import NirVerif.Lemmas.Encoding
import NirVerif.Lemmas.Typing
import NirVerif.Properties.C18
import NirVerif.Model.File

/-! # C04 — the reader decodes every valid encoding of the layout, including legacy files

The model's reader takes what a *raw h5py traversal* reports: for a string dataset the decoded
text (variable or fixed length, ASCII or UTF-8 character set, NUL or space padding are not
visible to it — `DsetVal.str` carries none of that), for a numeric dataset dtype / shape /
bytes (chunking, compression, filters are not visible either).  That the real reader agrees
with this model on every such encoding — and on the 8 shipped artefacts — is what the
`reader` correspondence suite checks on every run, with files produced by an independent
raw-h5py encoder.  What remains to be *proved* is that the choices the model does see make no
difference: integer width / signedness / byte order, member order, omitted optional members. -/
namespace NirVerif.C04
open NirVerif NirVerif.Py NirVerif.Model NirVerif.Lemmas

/-- **Any integer width**: a shape or hyper-parameter vector stored in any integer dtype that
holds its entries (int8 … int64, uint8 … uint64, either byte order) is read as the same
integers by everything that consumes shapes. -/
theorem width_invariance (dt : DType) (hk : dt.kind = .int ∨ dt.kind = .uint) (hs : 1 ≤ dt.size)
    (xs : List Int) (hfit : ∀ x ∈ xs, fitsInt dt x = true) :
    Spec.shapeOfVal (.arr dt [xs.length] (encodeInts dt xs)) = some xs ∧
    shapeInts (.arr dt [xs.length] (encodeInts dt xs)) = .ok xs ∧
    Val.intElems? (.arr dt [xs.length] (encodeInts dt xs)) = some xs := by
  have hdec := decodeInts_encodeInts dt xs hs hfit
  have hint : dt.isInteger = true := by
    rcases hk with h | h <;> simp [DType.isInteger, h]
  have hk' : (dt.kind == DKind.int || dt.kind == DKind.uint) = true := by
    rcases hk with h | h <;> simp [h]
  refine ⟨?_, ?_, ?_⟩
  · simp [Spec.shapeOfVal, hk', hdec]
  · simp [shapeInts, hint, hdec]
  · simp [Val.intElems?, hint, hdec]

/-- the same for a scalar hyper-parameter (stride, groups, start_dim … read back as a numpy
integer of whatever width the producer chose) -/
theorem scalar_width_invariance (dt : DType) (hk : dt.kind = .int ∨ dt.kind = .uint) (hs : 1 ≤ dt.size)
    (i : Int) (hfit : fitsInt dt i = true) :
    Val.asInt? (.npscalar dt (encodeInt dt i)) = some i ∧ Spec.intOfVal (.npscalar dt (encodeInt dt i)) = some i := by
  have hdec := decodeInt_encodeInt dt i hs hfit
  have hint : dt.isInteger = true := by
    rcases hk with h | h <;> simp [DType.isInteger, h]
  have hk' : (dt.kind == DKind.int || dt.kind == DKind.uint) = true := by
    rcases hk with h | h <;> simp [h]
  exact ⟨by simp [Val.asInt?, hint, hdec], by simp [Spec.intOfVal, hk', hdec]⟩

/-- strings and type tags come out of `hdf2dict` as `str`, whatever their physical encoding -/
theorem string_decoded (s : String) : h5Load (.str s) = .str s := rfl

theorem hasKey_congr {α} (kw1 kw2 : List (String × Val)) (spec : List (String × α))
    (h : ∀ k, lookup k kw1 = lookup k kw2) :
    kw1.any (fun kv => !(hasKey kv.1 spec)) = kw2.any (fun kv => !(hasKey kv.1 spec)) := by
  have key : ∀ (a b : List (String × Val)), (∀ k, (lookup k a).isSome = (lookup k b).isSome) →
      a.any (fun kv => !(hasKey kv.1 spec)) = true → b.any (fun kv => !(hasKey kv.1 spec)) = true := by
    intro a b hab ha
    rw [List.any_eq_true] at ha ⊢
    obtain ⟨⟨k, v⟩, hmem, hk⟩ := ha
    have hsome : (lookup k a).isSome = true := lookup_isSome_of_mem k a (List.mem_map.mpr ⟨(k, v), hmem, rfl⟩)
    rw [hab k] at hsome
    obtain ⟨v', hv'⟩ := Option.isSome_iff_exists.mp hsome
    -- k is a key of b
    have : ∃ p ∈ b, p.1 = k := by
      clear hab hsome
      induction b with
      | nil => simp [lookup] at hv'
      | cons p rest ih =>
        obtain ⟨k0, v0⟩ := p
        by_cases hk0 : (k0 == k) = true
        · exact ⟨(k0, v0), List.mem_cons_self, by simpa using hk0⟩
        · simp only [lookup, hk0, Bool.false_eq_true, if_false] at hv'
          obtain ⟨p, hp, hpk⟩ := ih hv'
          exact ⟨p, List.mem_cons_of_mem _ hp, hpk⟩
    obtain ⟨p, hp, rfl⟩ := this
    exact ⟨p, hp, hk⟩
  have h1 : ∀ k, (lookup k kw1).isSome = (lookup k kw2).isSome := fun k => by rw [h k]
  have h2 : ∀ k, (lookup k kw2).isSome = (lookup k kw1).isSome := fun k => by rw [h k]
  cases ha : kw1.any (fun kv => !(hasKey kv.1 spec)) with
  | true => exact (key kw1 kw2 h1 ha).symm
  | false =>
    cases hb : kw2.any (fun kv => !(hasKey kv.1 spec)) with
    | true => rw [key kw2 kw1 h2 hb] at ha; cases ha
    | false => rfl

/-- **Member order is irrelevant** (name order, creation order under `track_order`, …):
keyword binding depends only on which value each key has. -/
theorem order_invariance (spec : List (String × Option Val)) (kw1 kw2 : List (String × Val))
    (h : ∀ k, lookup k kw1 = lookup k kw2) : bindKwargs spec kw1 = bindKwargs spec kw2 := by
  unfold bindKwargs
  rw [hasKey_congr kw1 kw2 spec h]
  have : bindAll kw1 spec = bindAll kw2 spec := by
    induction spec with
    | nil => rfl
    | cons p rest ih => simp only [bindAll, bindOne, h, ih]
  rw [this]

/-- **Optional members**: omitting `metadata`, Flatten's `start_dim` / `end_dim` / input shape
or CubaLIF's `w_in` is legal — the dataclass defaults (from the generated field table) are
`{}`, `1`, `-1`, `None` and `1.0`. -/
theorem optional_defaults :
    (∀ kind ∈ Generated.whitelist, ((lookup kind Generated.classFields).bind (lookup "metadata")) = some (some (Val.dict []))) ∧
    (lookup "Flatten" Generated.classFields).bind (lookup "start_dim") = some (some (Val.int 1)) ∧
    (lookup "Flatten" Generated.classFields).bind (lookup "end_dim") = some (some (Val.int (-1))) ∧
    (lookup "Flatten" Generated.classFields).bind (lookup "input_type") = some (some Val.none) ∧
    (lookup "CubaLIF" Generated.classFields).bind (lookup "w_in") = some (some (Val.float [0, 0, 0, 0, 0, 0, 0xf0, 0x3f])) := by
  refine ⟨?_, rfl, rfl, rfl, rfl⟩
  intro kind hk
  simp only [Generated.whitelist, List.mem_cons, List.mem_nil_iff, or_false] at hk
  rcases hk with rfl | rfl | rfl | rfl | rfl | rfl | rfl | rfl | rfl | rfl | rfl | rfl | rfl | rfl | rfl | rfl | rfl | rfl <;> rfl

end NirVerif.C04
