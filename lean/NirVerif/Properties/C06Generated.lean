import NirVerif.Properties.C06Model
import NirVerif.Generated.ConvCallSites

/-! # C06 — who calls the shape formula with what (translator item T21)

`C06.lean` / `C06Model.lean` prove the per-axis formula and the whole `calculate_conv_output` (regenerated, T4) correct, and that
the model's constructors and inference step hand it the right operands.  That the *source's* call sites bind the same
operands to the same parameters — input extent, padding, dilation, kernel, stride, in that order; `1` for the dilation of
pooling; the spatial part of the *predecessor's* output for pooling; the channel entry of the declared output taken from
the weight's axis 0 (convolution) or from the node's own input (pooling) — is read off the source on every run: every call
of `calculate_conv_output` in `conv.py` and in the active `_forward_type_inference`, with keyword arguments resolved against
the definition's parameter list.  A call site that swaps two operands, or a new call site, changes the regenerated table. -/
namespace NirVerif.C06
open NirVerif

theorem call_sites_generated :
    Generated.convOutputParams = ["input_shape", "padding", "dilation", "kernel_size", "stride"] ∧
    Generated.convCallSites =
      [("Conv1d.__post_init__", ["node.input_shape", "node.padding", "node.dilation", "node.weight.shape[2]", "node.stride"],
          "node.weight.shape[0]"),
       ("Conv2d.__post_init__", ["node.input_shape", "node.padding", "node.dilation", "node.weight.shape[2:]", "node.stride"],
          "node.weight.shape[0]"),
       ("infer:Conv1d|Conv2d", ["node.input_shape", "node.padding", "node.dilation", "node.weight.shape[2:]", "node.stride"],
          "node.weight.shape[0]"),
       ("infer:SumPool2d", ["pre.output_type['output'][1:]", "node.padding", "1", "node.kernel_size", "node.stride"],
          "node.input_type['input'][0]"),
       ("infer:AvgPool2d", ["pre.output_type['output'][1:]", "node.padding", "1", "node.kernel_size", "node.stride"],
          "node.input_type['input'][0]")] := by
  decide +kernel

end NirVerif.C06
