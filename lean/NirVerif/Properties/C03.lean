import NirVerif.Model.File
import NirVerif.Spec.Layout
import NirVerif.Lemmas.Dict

/-! # C03 — written files follow the published on-disk layout

`Spec.docNames` is the documented layout.  `storedNames` computes, from the *generated*
dataclass field table (T1), the member names `to_dict`/`write` produce for each class — so
renaming, adding or dropping a field, or starting to store the derived types, breaks `names`
in the build, before any input is sampled.  The value-level encoding (dtype, shape, bytes,
vlen UTF-8 strings) and the whole tree are compared on every run by the `files`
correspondence suite (raw h5py traversal vs. model) and by an independent Python reference
encoder. -/
namespace NirVerif.C03
open NirVerif NirVerif.Py NirVerif.Model

/-- member names that `NIRNode.to_dict` + the class-specific overrides produce for a class
with the given dataclass fields (`metadata` apart, which is stored only when non-empty) -/
def storedNames (kind : String) : List String :=
  let fields := ((lookup kind Generated.classFields).getD []).map Prod.fst
  let plain := fields.filter fun f => f != "input_type" && f != "output_type" && f != "metadata"
  match kind with
  | "Input" | "Output" => plain ++ ["type", "shape"]
  | "Flatten" => plain ++ ["type", "input_type"]
  | _ => plain ++ ["type"]

/-- Every serialisable class stores exactly the documented members under the documented
names — nothing else (in particular neither `input_type` nor `output_type`). -/
theorem names : ∀ kind ∈ Generated.whitelist, some (storedNames kind) = lookup kind Spec.docNames := by
  decide +kernel

/-- the documented table covers exactly the whitelisted classes -/
theorem names_cover : Spec.docNames.map Prod.fst = ["Affine", "Linear", "Scale", "Threshold", "Delay", "I", "IF", "LI",
    "LIF", "CubaLIF", "Conv1d", "Conv2d", "SumPool2d", "AvgPool2d", "Flatten", "Input", "Output", "NIRGraph"] ∧
    ∀ k ∈ Spec.docNames.map Prod.fst, k ∈ Generated.whitelist := by
  decide +kernel

/-- the dictionary of a leaf node without class-specific override has exactly its fields,
`metadata` and `type` as keys, in that order -/
theorem toDict_keys_generic (kind : String) (fields : List (String × Val)) (it ot md : Val)
    (hk : kind ≠ "NIRGraph" ∧ kind ≠ "Input" ∧ kind ≠ "Output" ∧ kind ≠ "Flatten") :
    toDict (Node.mk kind fields it ot md [] []) = .ok (.dict (fields ++ [("metadata", md), ("type", .str kind)])) := by
  obtain ⟨h1, h2, h3, h4⟩ := hk
  unfold toDict
  split <;> first | rfl | simp_all

/-- The root of a written file holds exactly the group `node` and the string dataset
`version`, and `read_version` returns the version that was written. -/
theorem root (version : String) (g : Node) (f : H5) (h : write version g = .ok f) :
    (∃ node, f = .group [("node", .group node), ("version", .dset (.str version))]) ∧
    readVersion f = .ok version := by
  unfold write at h
  simp only [bind, Except.bind, pure, Except.pure] at h
  split at h
  · cases h
  · split at h
    · split at h
      · cases h
      · rename_i node _
        cases h
        exact ⟨⟨node, rfl⟩, by simp [readVersion, h5Get, lookup, bind, Except.bind, pure, Except.pure]⟩
    · cases h

/-- Edges are stored as an n-by-2 array of strings in edge order; an empty edge list as the
empty float64 dataset. -/
theorem edges_layout (edges : List Edge) :
    h5Create (edgesVal edges) =
      if edges.isEmpty then some (.num DType.float64 [0] [])
      else some (.strs [edges.length, 2] (edges.flatMap fun e => [e.1, e.2])) := by
  cases edges with
  | nil => simp [edgesVal, h5Create]
  | cons e rest =>
    have hall : ((e :: rest).map fun e : Edge => Val.tuple [.str e.1, .str e.2]).all isStrVal = false := by
      simp [isStrVal]
    have hrows : ∀ l : List Edge, (l.map fun e : Edge => Val.tuple [.str e.1, .str e.2]).filterMap strPair?
        = l.map fun e => [e.1, e.2] := by
      intro l
      induction l with
      | nil => rfl
      | cons x xs ih => simp [strPair?, ih]
    simp only [edgesVal, h5Create, hall, List.isEmpty_cons, Bool.false_eq_true, if_false, hrows, List.length_map,
      beq_self_eq_true, if_true, List.flatMap]
    simp

/-- strings are stored as (variable-length UTF-8) string datasets, arrays with their own
dtype and shape, Python ints as int64 scalars -/
theorem value_layout (s : String) (hs : ¬ s.toList.contains (Char.ofNat 0)) (dt : DType) (sh : List Nat) (d : Bytes)
    (hdt : dt.kind ≠ .object ∧ dt.kind ≠ .unicodeU) (i : Int) (hi : fitsInt DType.int64 i = true) :
    h5Create (.str s) = some (.str s) ∧ h5Create (.arr dt sh d) = some (.num dt sh d) ∧
    h5Create (.int i) = some (.num DType.int64 [] (encodeInt DType.int64 i)) := by
  refine ⟨by simp only [h5Create, hs, Bool.false_eq_true, if_false], ?_, by simp [h5Create, scalarItem, hi]⟩
  obtain ⟨h1, h2⟩ := hdt
  unfold h5Create
  split <;> simp_all

end NirVerif.C03
