import NirVerif.Lemmas.Typing

/-! # C09 — the graph type check accepts exactly the consistent graphs

About `Model.checkTypes` (hand-written model of the active `_check_types`, tied to the
code by the `graphs` correspondence suite). -/
namespace NirVerif.C09
open NirVerif NirVerif.Py NirVerif.Model NirVerif.Lemmas

/-- Every edge joins existing single-port leaf nodes (flat graph). -/
def Flat (g : Node) : Prop :=
  ∀ e ∈ g.edges, ∃ a b, lookup e.1 g.children = some a ∧ lookup e.2 g.children = some b
    ∧ SinglePort a ∧ SinglePort b

/-- The edge joins a source whose output shape is defined to a target whose input shape is
defined and equal to it (`Spec.portShape` is the specification's own reading of a type). -/
def EdgeConsistent (g : Node) (e : Edge) : Prop :=
  ∃ a b s, lookup e.1 g.children = some a ∧ lookup e.2 g.children = some b
    ∧ Spec.portShape a.outputType = some s ∧ Spec.portShape b.inputType = some s

/-- The check succeeds precisely when every edge is consistent — any topology, any edge
order, any multiplicity. -/
theorem iff (g : Node) (hflat : Flat g) :
    checkTypes g = .ok true ↔ ∀ e ∈ g.edges, EdgeConsistent g e := by
  have hred : checkTypes g = .ok true ↔ forEachEdge (checkEdge g.children) g.edges = .ok () := by
    unfold checkTypes
    cases h : forEachEdge (checkEdge g.children) g.edges <;> simp
  rw [hred, forEachEdge_ok]
  constructor
  · intro h e he
    obtain ⟨a, b, ha, hb, hsa, hsb⟩ := hflat e he
    rcases checkEdge_spec g.children e a b ha hb hsa hsb with ⟨_, s, h1, h2⟩ | ⟨herr, _⟩
    · exact ⟨a, b, s, ha, hb, h1, h2⟩
    · rw [h e he] at herr; cases herr
  · intro h e he
    obtain ⟨a, b, ha, hb, hsa, hsb⟩ := hflat e he
    obtain ⟨a', b', s, ha', hb', h1, h2⟩ := h e he
    rw [ha] at ha'; rw [hb] at hb'
    cases ha'; cases hb'
    rcases checkEdge_spec g.children e a b ha hb hsa hsb with ⟨hok, _⟩ | ⟨_, hno⟩
    · exact hok
    · exact absurd ⟨s, h1, h2⟩ hno

/-- In every other case it raises, and what it raises is `ValueError`. -/
theorem rejects (g : Node) (hflat : Flat g) (h : checkTypes g ≠ .ok true) :
    checkTypes g = .error .valueError := by
  have := forEachEdge_err (checkEdge g.children) g.edges .valueError (by
    intro e he
    obtain ⟨a, b, ha, hb, hsa, hsb⟩ := hflat e he
    rcases checkEdge_spec g.children e a b ha hb hsa hsb with ⟨hok, _⟩ | ⟨herr, _⟩
    · exact Or.inl hok
    · exact Or.inr herr)
  unfold checkTypes at *
  rcases this with h1 | h1
  · rw [h1] at h; simp at h
  · rw [h1]

/-- Non-vacuity: a two-node graph with a consistent edge and a self-loop is `Flat`, and
the check accepts it; with a mismatched shape it is still `Flat` and is rejected. -/
def exNode (i o : List Int) : Node :=
  Node.mk "Scale" [] (typeDict "input" (Val.ofInts i)) (typeDict "output" (Val.ofInts o)) (.dict []) [] []

example : checkTypes (mkGraph [("a", exNode [2, 3] [2, 3]), ("b", exNode [2, 3] [2, 3])]
    [("a", "b"), ("b", "b"), ("a", "b")]) = .ok true := by decide +kernel
example : checkTypes (mkGraph [("a", exNode [2, 3] [2, 3]), ("b", exNode [3, 2] [2, 3])]
    [("a", "b")]) = .error .valueError := by decide +kernel

end NirVerif.C09
