import NirVerif.Model.FS

/-! # C15 — a file path behaves as a last-writer-wins register

About `Model.fsStep` over the *generated* file modes and `with`-usage of `nir/serialization.py`
(T3): a change of the mode literal or dropping the context manager changes the generated
constants and these theorems stop checking.  OS-level handle behaviour is exhibited by the
correspondence run (`/proc/self/fd`, rename, delete); the model proves the bookkeeping. -/
namespace NirVerif.C15
open NirVerif NirVerif.Py NirVerif.Model

/-- the source opens files the way the register semantics needs -/
theorem modes : Generated.writeMode = "w" ∧ Generated.readMode = "r" ∧ Generated.versionMode = "r" ∧
    Generated.writeUsesWith = true ∧ Generated.readUsesWith = true ∧ Generated.versionUsesWith = true := by
  decide

/-- the abstract register: the file content produced by the most recent successful write -/
def specStep (version : String) (reg : Option H5) : FsOp → Option H5
  | .write g => match write version g with
    | .ok f => some f
    | .error _ => some (H5.group [])      -- a rejected write is outside the claim: it leaves a truncated file
  | .read => reg
  | .readVersion => reg

def specRun (version : String) : Option H5 → List FsOp → Option H5
  | reg, [] => reg
  | reg, op :: rest => specRun version (specStep version reg op) rest

/-- One step: the path's content afterwards is exactly what the *last* write produced — no
residue of the previous content —, reads leave it untouched, and no handle stays open. -/
theorem step_refines (version : String) (fs : FS) (op : FsOp) (h0 : fs.openHandles = 0) :
    let r := fsStep version fs op
    r.1.openHandles = 0 ∧
    (∀ g f, op = .write g → write version g = .ok f → r.1.content = some f ∧ (match r.2 with | .done => True | _ => False)) ∧
    (op = .read → r.1.content = fs.content ∧
      ∀ f, fs.content = some f → (match r.2, read f with
        | .graph g, .ok g' => g = g'
        | .failed e, .error e' => e = e'
        | _, _ => False)) ∧
    (op = .readVersion → r.1.content = fs.content) := by
  have hm := modes
  obtain ⟨m1, m2, m3, w1, w2, w3⟩ := hm
  cases op with
  | write g =>
    simp only [fsStep, openForWrite, m1, w1, closeIf, h0, beq_self_eq_true, if_true]
    refine ⟨?_, ?_, (by intro h; cases h), (by intro h; cases h)⟩
    · split <;> rfl
    · intro g' f hg hw
      cases hg
      simp [hw]
  | read =>
    simp only [fsStep, m2, w2, closeIf, h0, readable, if_true]
    refine ⟨?_, (by intro g f h; cases h), ?_, (by intro h; cases h)⟩
    · simp; split <;> (try split) <;> rfl
    · intro _
      simp only [beq_self_eq_true, Bool.true_or, Bool.not_true, Bool.false_eq_true, if_false]
      refine ⟨?_, ?_⟩
      · split <;> (try split) <;> rfl
      · intro f hf
        simp only [hf]
        cases read f <;> simp
  | readVersion =>
    simp only [fsStep, m3, w3, closeIf, h0, readable, if_true]
    refine ⟨?_, (by intro g f h; cases h), (by intro h; cases h), ?_⟩
    · simp; split <;> (try split) <;> rfl
    · intro _
      simp only [beq_self_eq_true, Bool.true_or, Bool.not_true, Bool.false_eq_true, if_false]
      split <;> (try split) <;> rfl

/-- **Register refinement** over any operation history: the path always holds exactly the
content of the most recent write (the abstract register), and every call leaves the file closed. -/
theorem refines (version : String) (ops : List FsOp) (fs : FS) (h0 : fs.openHandles = 0) :
    (fsRun version fs ops).1.openHandles = 0 ∧
    (fsRun version fs ops).1.content = specRun version fs.content ops := by
  induction ops generalizing fs with
  | nil => exact ⟨h0, rfl⟩
  | cons op rest ih =>
    simp only [fsRun, specRun]
    have hs := step_refines version fs op h0
    obtain ⟨hh, hw, hr, hv⟩ := hs
    have hcontent : (fsStep version fs op).1.content = specStep version fs.content op := by
      cases op with
      | write g =>
        simp only [specStep]
        cases hwr : write version g with
        | ok f => exact ((hw g f rfl hwr).1)
        | error e =>
          obtain ⟨m1, _, _, w1, _, _⟩ := modes
          simp only [fsStep, openForWrite, m1, beq_self_eq_true, if_true, hwr]
      | read => exact (hr rfl).1
      | readVersion => exact hv rfl
    have := ih (fsStep version fs op).1 hh
    rw [hcontent] at this
    exact this


theorem specRun_last (version : String) (ops : List FsOp) (g : Node) (f : H5) (hw : write version g = .ok f)
    (reg : Option H5) : specRun version reg (ops ++ [.write g]) = some f := by
  induction ops generalizing reg with
  | nil => simp [specRun, specStep, hw]
  | cons op rest ih => simp only [List.cons_append, specRun]; exact ih _

/-- Corollary in the property's words: after any history ending in a successful write of `g`,
the path holds exactly the file of `g` (nothing of earlier, larger or differently shaped
graphs), and it is closed. -/
theorem read_after_history (version : String) (ops : List FsOp) (g : Node) (f : H5)
    (hw : write version g = .ok f) :
    let fs := (fsRun version { content := none, openHandles := 0 } (ops ++ [.write g])).1
    fs.content = some f ∧ fs.openHandles = 0 := by
  intro fs
  have h := refines version (ops ++ [.write g]) { content := none, openHandles := 0 } rfl
  exact ⟨by rw [h.2]; exact specRun_last version ops g f hw _, h.1⟩

end NirVerif.C15
