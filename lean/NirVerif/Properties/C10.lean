import NirVerif.Lemmas.Inference

/-! # C10 — inference terminates and is non-destructive on every topology

About `Model.workList` / `Model.processEdge` / `Model.inferTypes` (hand-written model of the
active `_forward_type_inference`, tied to the code by the `graphs` correspondence suite,
which runs every case under a watchdog).

**Termination**: `Model.workList` is defined by well-founded recursion on the measure
(#edge targets not yet seen, #work-list entries whose target is seen); Lean accepts the
definition only together with its `decreasing_by` proof, for every multigraph, so the audit
of `NirVerif.Model.workList` below *is* the termination obligation. -/
namespace NirVerif.C10
open NirVerif NirVerif.Py NirVerif.Model NirVerif.Lemmas

/-- `infer_types` never changes the edge list, the graph's metadata or kind, the node names or
their order; and every node keeps its kind, metadata, children and every field — the only
field it may set being `input_shape` of a Conv node whose output type was undefined — and a
defined output type of a non-Output node is kept.  Holds whether or not inference raises. -/
theorem frame (g : Node) :
    let g' := (inferTypes g).1
    g'.edges = g.edges ∧ g'.metadata = g.metadata ∧ g'.kind = g.kind ∧ g'.fields = g.fields ∧
    g'.children.map Prod.fst = g.children.map Prod.fst ∧
    ∀ k n0, lookup k g.children = some n0 → ∃ n, lookup k g'.children = some n ∧ Frame n0 n := by
  intro g'
  simp only [g', inferTypes]
  split
  · exact ⟨rfl, rfl, rfl, rfl, rfl, fun k n0 h => ⟨n0, h, Frame.refl _⟩⟩
  · have hf := forwardInference_frameInv g
    cases g with
    | mk k f i o m c e => exact ⟨rfl, rfl, rfl, rfl, hf.1, hf.2⟩

/-- It touches no node that is not reachable from an Input (by a non-empty path of edges):
such nodes are returned exactly as they were — success or exception. -/
theorem untouched (g : Node) (k : String)
    (hk : ¬ Reach g.edges ((graphInputs g).map Prod.fst) k) :
    lookup k (inferTypes g).1.children = lookup k g.children := by
  simp only [inferTypes]
  split
  · rfl
  · have := forwardInference_touched g k
    cases g with
    | mk kd f i o m c e =>
      simp only [Node.setChildren, Node.refreshIO, Node.setTypes, Node.children] at this ⊢
      by_cases h : lookup k (forwardInference (Node.mk kd f i o m c e)).1 = lookup k c
      · exact h
      · exact absurd (this h) hk

/-- Static well-formedness that every constructed graph has: Input nodes carry defined
types, and a node whose output type inference cannot compute has a defined output type. -/
structure TypedSources (g : Node) : Prop where
  inputs : ∀ k n, lookup k g.children = some n → n.isKind "Input" = true → DefinedBoth n
  static : ∀ k n, lookup k g.children = some n → inferable n.kind = true ∨ typeUndefined n.outputType = false

/-- If `infer_types` returns normally, every node reachable from an Input has both types
defined — on every topology (cycles, self-loops, parallel edges, fan-in/out) and edge order. -/
theorem reach (g : Node) (hkeys : (g.children.map Prod.fst).Nodup) (hg : TypedSources g) (hok : (inferTypes g).2 = none) (k : String)
    (hk : Reach g.edges ((graphInputs g).map Prod.fst) k) :
    ∃ n, lookup k (inferTypes g).1.children = some n ∧ DefinedBoth n := by
  simp only [inferTypes] at hok ⊢
  split at hok
  · cases hok
  · rename_i hne
    simp only at hok ⊢
    have hsucc : (forwardInference g).2.2 = none := hok
    have hinputs : ∀ k ∈ (graphInputs g).map Prod.fst, ∀ n, lookup k g.children = some n → n.isKind "Input" = true := by
      intro k hk n hn
      simp only [graphInputs, List.mem_map, List.mem_filter] at hk
      obtain ⟨⟨k', n'⟩, ⟨hmem, hkind⟩, rfl⟩ := hk
      rw [lookup_of_mem_nodup _ hkeys _ _ hmem] at hn
      cases hn; exact hkind
    have key := forwardInference_good g (fun _ n => DefinedBoth n)
      (fun k hk n hn => hg.inputs k n hn (hinputs k ((mem_initialSeen _ _ _).mp hk).1 n hn))
      (fun pre post preN postN _ hpre hpost hnone => by
        apply stepNode_defined preN postN hpre.2 _ hnone
        rcases hpost with h | h
        · exact hg.static post postN h
        · exact Or.inr h.2)
      hsucc
    obtain ⟨hgood, _, hclosed, _⟩ := key
    obtain ⟨n, hn, hd⟩ := hgood k (hclosed k hk)
    have hne' : (graphInputs g).isEmpty = false := by simpa using hne
    refine ⟨n, ?_, hd⟩
    cases g with
    | mk kd f i o m c e =>
      simp only [hne', Bool.false_eq_true, if_false, Node.setChildren, Node.refreshIO, Node.setTypes, Node.children]
      exact hn


/-! ## running it a second time changes nothing -/

/-- The full statement (every flat graph, consistent or not).  It is *not* proved here: the
correspondence/oracle run checks it on every explored graph (exhaustively on small scopes,
see evidence) and the model satisfies it on all of them; what is kernel-checked is
`idempotent_partial` below. -/
def idempotent_full : Prop :=
  ∀ g : Node, (inferTypes g).2 = none → inferTypes (inferTypes g).1 = ((inferTypes g).1, none)

/-- every edge is a fixed point of the loop body -/
def EdgeStable (nodes : Nodes) (e : Edge) : Prop :=
  ∃ preN postN, lookup e.1 nodes = some preN ∧ lookup e.2 nodes = some postN ∧
    preN.isKind "NIRGraph" = false ∧ postN.isKind "NIRGraph" = false ∧ stepNode preN postN = (postN, none)

theorem insert_lookup_same {α} (k : String) (v : α) (d : List (String × α)) (h : lookup k d = some v) :
    Py.insert k v d = d := by
  induction d with
  | nil => simp [lookup] at h
  | cons kv rest ih =>
    obtain ⟨k0, v0⟩ := kv
    by_cases hk : (k0 == k) = true
    · have hk' : k0 = k := by simpa using hk
      simp only [lookup, hk, if_true, Option.some.injEq] at h
      simp [Py.insert, hk, h, hk']
    · have hk' : (k0 == k) = false := by simpa using hk
      simp only [lookup, hk', Bool.false_eq_true, if_false] at h
      simp [Py.insert, hk', ih h]

/-- **Partial**: on a graph all of whose edges are fixed points of the loop body — which is
what a successful run on a type-consistent graph produces (C08) — a further `infer_types`
changes nothing at all and succeeds. -/
theorem idempotent_partial (g : Node) (hin : (graphInputs g).isEmpty = false)
    (hmirror : g.inputType = graphInputType g.children ∧ g.outputType = graphOutputType g.children)
    (hstable : ∀ e ∈ g.edges, EdgeStable g.children e) :
    inferTypes g = (g, none) := by
  have key := workList_inv2 g.edges processEdge (fun nodes _ _ => nodes = g.children)
    (fun nodes _ err => nodes = g.children ∧ err = none)
    (fun st sn h => ⟨h, rfl⟩)
    (fun st pre post hmem rest sn st' e h hs => by
      subst h
      obtain ⟨preN, postN, h1, h2, k1, k2, hst⟩ := hstable (pre, post) hmem
      simp [processEdge, h1, h2, k1, k2, hst] at hs)
    (fun st pre post hmem rest sn st' h hs => by
      subst h
      obtain ⟨preN, postN, h1, h2, k1, k2, hst⟩ := hstable (pre, post) hmem
      simp only [processEdge, h1, h2, k1, k2, hst, Bool.or_self, Bool.false_eq_true, if_false, setNode,
        Prod.mk.injEq, and_true] at hs
      rw [← hs, insert_lookup_same _ _ _ h2])
    g.children (initialStack g.edges ((graphInputs g).map Prod.fst)) (initialSeen g.edges ((graphInputs g).map Prod.fst)) rfl
  simp only [inferTypes, hin, Bool.false_eq_true, if_false]
  have h1 : (forwardInference g).1 = g.children := key.1
  have h2 : (forwardInference g).2.2 = none := key.2
  cases g with
  | mk kd f i o m c e =>
    simp only [Node.inputType, Node.outputType, Node.children] at hmirror h1
    simp [h1, h2, Node.setChildren, Node.refreshIO, Node.setTypes, Node.children, ← hmirror.1, ← hmirror.2]

/-- Non-vacuity: a concrete graph with a cycle and a parallel edge meets the hypotheses of
`reach` (unique names, typed sources). -/
example :
    let g := mkGraph
      [("in", Node.mk "Input" [] (typeDict "input" (Val.ofInts [2])) (typeDict "output" (Val.ofInts [2])) (.dict []) [] []),
       ("a", Node.mk "Scale" [] (typeDict "input" (Val.ofInts [2])) (typeDict "output" (Val.ofInts [2])) (.dict []) [] []),
       ("out", Node.mk "Output" [] (typeDict "input" .none) (typeDict "output" .none) (.dict []) [] [])]
      [("in", "a"), ("a", "a"), ("a", "out"), ("a", "out")]
    (g.children.map Prod.fst).Nodup ∧ TypedSources g := by
  refine ⟨by decide, ⟨?_, ?_⟩⟩
  · intro k n hl hk
    simp only [mkGraph, Node.children, lookup] at hl
    repeat' split at hl
    all_goals (first | cases hl | skip)
    all_goals (first | (simp [Node.isKind, Node.kind] at hk; done) | simp [DefinedBoth, typeUndefined, typeDict, Val.ofInts, Node.inputType, Node.outputType])
  · intro k n hl
    simp only [mkGraph, Node.children, lookup] at hl
    repeat' split at hl
    all_goals (first | cases hl | skip)
    all_goals simp [inferable, typeUndefined, typeDict, Val.ofInts, Node.outputType, Node.kind]

end NirVerif.C10
