import NirVerif.Model.Dict
import NirVerif.Lemmas.Dict

/-! # C18 — deserialisation is closed-world and strict

About `Model.fromDict` / `Model.construct` / `Model.bindKwargs` over the *generated* whitelist
(T2) and field table (T1); tied to `dict2NIRNode` / `nir.read` by the `dicts` correspondence
suite, which feeds malformed dictionaries to both sides.  Reading a file goes through the same
function (`read f = fromDict (hdf2dict f["node"])`). -/
namespace NirVerif.C18
open NirVerif NirVerif.Py NirVerif.Model NirVerif.Lemmas

/-- the whitelist is exactly the 18 documented serialisable primitives -/
theorem whitelist_documented : Generated.whitelist.length = 18 ∧ ∀ k ∈
    ["Input", "Output", "Affine", "Linear", "Scale", "Conv1d", "Conv2d", "SumPool2d", "AvgPool2d", "Flatten",
     "Delay", "Threshold", "I", "IF", "LI", "LIF", "CubaLIF", "NIRGraph"], k ∈ Generated.whitelist := by
  decide +kernel

theorem fromDictFuel_type (fuel : Nat) (kvs : List (String × Val)) (t : Val) (e : PyErr)
    (ht : lookup "type" kvs = some t) (hs : str2NIRNode t = .error e) :
    fromDictFuel (fuel + 1) (.dict kvs) = .error e := by
  simp [fromDictFuel, ht, hs, bind, Except.bind, pure, Except.pure]

/-- **Closed world**: a dictionary whose `type` is a string outside the whitelist constructs
nothing and raises — whatever else it contains, at the top level … -/
theorem closed (kvs : List (String × Val)) (s : String)
    (ht : lookup "type" kvs = some (.str s)) (hs : s ∉ Generated.whitelist) :
    fromDict (.dict kvs) = .error .assertionError := by
  unfold fromDict
  apply fromDictFuel_type _ _ _ _ ht
  have : Generated.whitelist.contains s = false := by
    simpa using hs
  simp only [str2NIRNode, this, Bool.false_eq_true, if_false]

/-- a type entry that is not a string at all is rejected as well -/
theorem closed_nonstring (kvs : List (String × Val)) (t : Val) (ht : lookup "type" kvs = some t)
    (hns : ∀ s, t ≠ .str s) : ∃ e, fromDict (.dict kvs) = .error e := by
  unfold fromDict
  cases t with
  | str s => exact absurd rfl (hns s)
  | _ => exact ⟨_, fromDictFuel_type _ _ _ _ ht rfl⟩

/-- a dictionary without a `type` entry raises KeyError -/
theorem no_type (kvs : List (String × Val)) (ht : lookup "type" kvs = none) :
    fromDict (.dict kvs) = .error .keyError := by
  simp [fromDict, fromDictFuel, ht, bind, Except.bind, throw, throwThe, MonadExceptOf.throw]

/-! ## strictness of keyword binding -/

theorem bindKwargs_extra (spec : List (String × Option Val)) (kwargs : List (String × Val)) (k : String) (v : Val)
    (hk : (k, v) ∈ kwargs) (hns : k ∉ spec.map Prod.fst) :
    bindKwargs spec kwargs = .error .typeError := by
  have : kwargs.any (fun kv => !(hasKey kv.1 spec)) = true := by
    rw [List.any_eq_true]
    refine ⟨(k, v), hk, ?_⟩
    simp [hasKey, lookup_eq_none_of_not_mem k spec hns]
  simp [bindKwargs, this]

theorem bindAll_errors (kwargs : List (String × Val)) (spec : List (String × Option Val)) (e : PyErr)
    (h : bindAll kwargs spec = .error e) : e = .typeError := by
  induction spec with
  | nil => simp [bindAll] at h
  | cons p rest ih =>
    simp only [bindAll] at h
    split at h
    · rename_i e' he
      cases h
      unfold bindOne at he
      split at he <;> simp at he
      exact he.symm
    · split at h
      · rename_i e' he; cases h; exact ih he
      · cases h

theorem bindAll_missing (kwargs : List (String × Val)) (spec : List (String × Option Val)) (k : String)
    (hk : (k, none) ∈ spec) (hm : lookup k kwargs = none) :
    bindAll kwargs spec = .error .typeError := by
  induction spec with
  | nil => cases hk
  | cons p rest ih =>
    rcases List.mem_cons.mp hk with rfl | hk
    · simp [bindAll, bindOne, hm]
    · simp only [bindAll]
      split
      · rename_i e he
        have : bindAll kwargs (p :: rest) = .error e := by simp [bindAll, he]
        rw [bindAll_errors _ _ _ this]
      · rw [ih hk]

/-- **Missing mandatory field**: binding fails with TypeError, nothing is defaulted. -/
theorem bindKwargs_missing (spec : List (String × Option Val)) (kwargs : List (String × Val)) (k : String)
    (hk : (k, none) ∈ spec) (hm : lookup k kwargs = none) :
    bindKwargs spec kwargs = .error .typeError := by
  unfold bindKwargs
  split
  · rfl
  · exact bindAll_missing kwargs spec k hk hm


/-- mandatory init-fields of a class according to the generated field table -/
def mandatory (kind : String) : List String :=
  ((lookup kind Generated.classFields).getD []).filterMap fun p => if p.2.isNone then some p.1 else none

/-- the mandatory fields are exactly the documented parameters (everything but the derived
types, `metadata`, Flatten's dimensions/input shape and CubaLIF's input weight) -/
theorem mandatory_table :
    mandatory "Affine" = ["weight", "bias"] ∧ mandatory "Linear" = ["weight"] ∧ mandatory "Scale" = ["scale"] ∧
    mandatory "Threshold" = ["threshold"] ∧ mandatory "Delay" = ["delay"] ∧ mandatory "I" = ["r"] ∧
    mandatory "IF" = ["r", "v_threshold"] ∧ mandatory "LI" = ["tau", "r", "v_leak"] ∧
    mandatory "LIF" = ["tau", "r", "v_leak", "v_threshold"] ∧
    mandatory "CubaLIF" = ["tau_syn", "tau_mem", "r", "v_leak", "v_threshold"] ∧
    mandatory "Conv1d" = ["input_shape", "weight", "stride", "padding", "dilation", "groups", "bias"] ∧
    mandatory "Conv2d" = ["input_shape", "weight", "stride", "padding", "dilation", "groups", "bias"] ∧
    mandatory "SumPool2d" = ["kernel_size", "stride", "padding"] ∧
    mandatory "AvgPool2d" = ["kernel_size", "stride", "padding"] ∧
    mandatory "Flatten" = [] ∧ mandatory "Input" = ["input_type"] ∧ mandatory "Output" = ["output_type"] ∧
    mandatory "NIRGraph" = ["nodes", "edges"] := by
  decide +kernel

theorem mem_mandatory (kind k : String) (spec : List (String × Option Val))
    (hspec : lookup kind Generated.classFields = some spec) (hk : k ∈ mandatory kind) : (k, none) ∈ spec := by
  simp only [mandatory, hspec, Option.getD_some, List.mem_filterMap] at hk
  obtain ⟨⟨a, b⟩, hmem, hb⟩ := hk
  cases b with
  | none => simp at hb; subst hb; exact hmem
  | some v => simp at hb

/-- **Missing field**: constructing any serialisable leaf primitive without one of its
mandatory fields raises TypeError. -/
theorem construct_missing (kind k : String) (kwargs : List (String × Val))
    (hk : k ∈ mandatory kind) (hm : lookup k kwargs = none) :
    construct kind kwargs = .error .typeError := by
  unfold construct
  cases hspec : lookup kind Generated.classFields with
  | none => simp [mandatory, hspec] at hk
  | some spec =>
    simp only
    rw [bindKwargs_missing spec kwargs k (mem_mandatory kind k spec hspec hk) hm]
    rfl

/-- **Extra field**: a key that is not a field of the class raises TypeError; it is never
ignored. -/
theorem construct_extra (kind k : String) (v : Val) (kwargs : List (String × Val)) (spec : List (String × Option Val))
    (hspec : lookup kind Generated.classFields = some spec) (hk : (k, v) ∈ kwargs) (hns : k ∉ spec.map Prod.fst) :
    construct kind kwargs = .error .typeError := by
  unfold construct
  simp only [hspec]
  rw [bindKwargs_extra spec kwargs k v hk hns]
  rfl

/-- for the primitives without a class-specific `from_dict`, reading a dictionary is
`cls(**d)` after removing the type tag -/
theorem fromDict_generic (kvs : List (String × Val)) (kind : String)
    (ht : lookup "type" kvs = some (.str kind)) (hw : kind ∈ Generated.whitelist)
    (hgen : kind ≠ "Input" ∧ kind ≠ "Output" ∧ kind ≠ "Flatten" ∧ kind ≠ "NIRGraph") :
    fromDict (.dict kvs) = construct kind (erase "type" kvs) := by
  have hc : Generated.whitelist.contains kind = true := by simpa using hw
  obtain ⟨h1, h2, h3, h4⟩ := hgen
  have e4 : (kind == "NIRGraph") = false := by simpa using h4
  unfold fromDict
  simp only [fromDictFuel, ht, str2NIRNode, hc, if_true, bind, Except.bind, pure, Except.pure, e4,
    Bool.false_eq_true, if_false]

/-- Non-vacuity: an LIF dictionary without `r`, and one with an unknown extra key, both raise. -/
example : fromDict (.dict [("tau", .arr DType.float64 [2] []), ("v_leak", .arr DType.float64 [2] []),
    ("v_threshold", .arr DType.float64 [2] []), ("type", .str "LIF")]) = .error .typeError := by
  rw [fromDict_generic _ "LIF" rfl (by decide) (by decide)]
  exact construct_missing "LIF" "r" _ (by decide) rfl

example : fromDict (.dict [("type", .str "Identity"), ("input_type", .none)]) = .error .assertionError :=
  closed _ "Identity" rfl (by decide)

end NirVerif.C18
