import NirVerif.Properties.C15
import NirVerif.Generated.ObserverEffects

/-! # C15 — the file is the only state (translator item T16)

`C15.refines` is about a model whose only state is the file content and the handle count.  That the real
`write` / `read` / `read_version` keep no *other* state from call to call — a cache of loaded graphs, a
mutable default argument that accumulates entries, a memory map of the file — is read off the source:
T16 lists every such construct anywhere under `nir/` in `sharedState`. -/
namespace NirVerif.C15
open NirVerif.Generated

/-- nothing under `nir/` keeps state between calls: the register of `refines` is all there is -/
theorem no_hidden_state_generated : ObserverEffects.sharedState = [] := by decide

end NirVerif.C15
