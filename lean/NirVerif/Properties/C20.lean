import Mathlib.Analysis.SpecialFunctions.Log.Basic
import Mathlib.Analysis.SpecialFunctions.ExpDeriv
import Mathlib.Analysis.SpecialFunctions.Exp
import NirVerif.Generated.LifExactReal
import NirVerif.Generated.CubaRefReal

/-! # C20 — the reference simulators implement the documented neuron dynamics

About `Generated.LifReal.*` and `Generated.CubaReal.cubaForward`, which the translator
re-derives from `paper/01_lif/lif_exact_sim.py` and
`paper/03_rnn/extras/debug_CubaLIF/nir_reference_impl.py` on every run (ℝ back-end; the
`Float` twins generated from the same syntax tree are executed against the Python originals
to validate the translator).  The theorems are over ℝ; float64 rounding is outside them. -/
namespace NirVerif.C20
open NirVerif.Generated.LifReal NirVerif.Generated.CubaReal Real Filter Topology

variable (tau r v_leak v_threshold : ℝ)

/-- closed form: relaxation from `v` towards the asymptote `v_leak + r*I` -/
theorem advance_eq (v I t : ℝ) :
    advance tau r v_leak v_threshold v I t
      = (v_leak + r * I) + (v - (v_leak + r * I)) * Real.exp (-t / tau) := by
  unfold advance; ring

/-- advancing by zero time is the identity -/
theorem zero (v I : ℝ) : advance tau r v_leak v_threshold v I 0 = v := by
  rw [advance_eq]; simp

/-- advancing in two steps equals advancing once by the sum -/
theorem add (v I a b : ℝ) :
    advance tau r v_leak v_threshold v I (a + b)
      = advance tau r v_leak v_threshold (advance tau r v_leak v_threshold v I a) I b := by
  simp only [advance_eq]
  have : Real.exp (-(a + b) / tau) = Real.exp (-a / tau) * Real.exp (-b / tau) := by
    rw [← Real.exp_add]; congr 1; ring
  rw [this]; ring

/-- **Recording is transparent on a spike-free, constant-input stretch**: the event loop handles a
record event by advancing the membrane to the record time; cutting a stretch of total length
`ds.sum` into any number of such advances (any recording interval, any phase) ends at the same
voltage as one advance over the whole stretch — so the voltage found at the next input change or
spike prediction does not depend on `record_dt`. -/
theorem record_transparent (v I : ℝ) (ds : List ℝ) :
    ds.foldl (fun u d => advance tau r v_leak v_threshold u I d) v
      = advance tau r v_leak v_threshold v I ds.sum := by
  induction ds generalizing v with
  | nil => simp [zero]
  | cons d rest ih =>
    simp only [List.foldl_cons, List.sum_cons]
    rw [ih, ← add]

/-- … and every recorded voltage is the value of the exact solution at its own record time,
whatever was recorded before: after the records at offsets `ds₁` the next record `d` later shows
`advance v I (ds₁.sum + d)`. -/
theorem recorded_value (v I : ℝ) (ds : List ℝ) (d : ℝ) :
    advance tau r v_leak v_threshold (ds.foldl (fun u x => advance tau r v_leak v_threshold u I x) v) I d
      = advance tau r v_leak v_threshold v I (ds.sum + d) := by
  rw [record_transparent, ← add]

/-- it solves the documented LIF equation `tau * dv/dt = (v_leak - v) + r*I` -/
theorem ode (htau : tau ≠ 0) (v I t : ℝ) :
    HasDerivAt (fun s => advance tau r v_leak v_threshold v I s)
      (((v_leak - advance tau r v_leak v_threshold v I t) + r * I) / tau) t := by
  have h1 : HasDerivAt (fun s : ℝ => -s / tau) (-1 / tau) t := by
    simpa using ((hasDerivAt_id t).neg).div_const tau
  have h2 := (h1.exp).const_mul (v - (v_leak + r * I))
  have h3 := h2.const_add (v_leak + r * I)
  have hfun : (fun s => advance tau r v_leak v_threshold v I s)
      = fun s => (v_leak + r * I) + (v - (v_leak + r * I)) * Real.exp (-s / tau) := by
    funext s; exact advance_eq tau r v_leak v_threshold v I s
  rw [hfun]
  have hval : ((v_leak - advance tau r v_leak v_threshold v I t) + r * I) / tau
      = (v - (v_leak + r * I)) * (Real.exp (-t / tau) * (-1 / tau)) := by
    rw [advance_eq]
    field_simp
    ring
  rw [hval]
  exact h3

/-- the membrane relaxes to `v_leak + r*I` -/
theorem relax (htau : 0 < tau) (v I : ℝ) :
    Tendsto (fun t => advance tau r v_leak v_threshold v I t) atTop (𝓝 (v_leak + r * I)) := by
  have hfun : (fun t => advance tau r v_leak v_threshold v I t)
      = fun t => (v_leak + r * I) + (v - (v_leak + r * I)) * Real.exp (-t / tau) := by
    funext s; exact advance_eq tau r v_leak v_threshold v I s
  rw [hfun]
  have h1 : Tendsto (fun t : ℝ => -t / tau) atTop atBot := by
    have : (fun t : ℝ => -t / tau) = fun t => (-1 / tau) * t := by funext t; ring
    rw [this]
    apply Tendsto.const_mul_atTop_of_neg (by
      have : 0 < 1 / tau := one_div_pos.mpr htau
      have h : -1 / tau = -(1 / tau) := by ring
      rw [h]; linarith) tendsto_id
  have h2 : Tendsto (fun t : ℝ => Real.exp (-t / tau)) atTop (𝓝 0) := Real.tendsto_exp_atBot.comp h1
  have h3 := (h2.const_mul (v - (v_leak + r * I))).const_add (v_leak + r * I)
  simpa using h3

/-- reset by subtraction -/
theorem reset (v : ℝ) : applyReset tau r v_leak v_threshold v = v - v_threshold := rfl

/-- The numpy CubaLIF reference step is exactly the forward-Euler update of the documented
equations `tau_syn * dI/dt = -I + w_in*S`, `tau_mem * dv/dt = (v_leak - v) + R*I`, with the
strict threshold `v > v_threshold` and reset by subtraction. -/
theorem cuba_euler (dt tau_syn tau_mem R vl vthr w I v x : ℝ) :
    let I' := I + dt * ((-I + w * x) / tau_syn)
    let v' := v + dt * (((vl - v) + R * I) / tau_mem)
    cubaForward dt tau_syn tau_mem R vl vthr w I v x
      = (if v' > vthr then 1 else 0, if v' > vthr then v' - vthr else v', I') := by
  simp only [cubaForward, boolToNum]
  have e1 : I + dt / tau_syn * (-I + w * x) = I + dt * ((-I + w * x) / tau_syn) := by ring
  have e2 : v + dt / tau_mem * (vl - v + R * I) = v + dt * ((vl - v + R * I) / tau_mem) := by ring
  rw [e1, e2]
  split <;> simp

theorem exp_le_one_of (htau : 0 < tau) (s : ℝ) (hs : 0 ≤ s) : Real.exp (-s / tau) ≤ 1 := by
  rw [Real.exp_le_one_iff]
  have : 0 ≤ s / tau := div_nonneg hs htau.le
  have h : -s / tau = -(s / tau) := by ring
  rw [h]; linarith

/-- A predicted spike time is a threshold crossing, and the first one. -/
theorem spike_some (htau : 0 < tau) (v I t : ℝ) (hv : v < v_threshold)
    (h : nextSpikeTime tau r v_leak v_threshold v I = some t) :
    0 ≤ t ∧ advance tau r v_leak v_threshold v I t = v_threshold ∧
      ∀ s, 0 ≤ s → s < t → advance tau r v_leak v_threshold v I s < v_threshold := by
  unfold nextSpikeTime at h
  simp only at h
  split at h
  · cases h
  · rename_i hD
    split at h
    · rename_i hpos
      split at h
      · rename_i hge
        simp only [Option.some.injEq] at h
        set D := (v - v_leak) - r * I with hDdef
        set N := (v_threshold - v_leak) - r * I with hNdef
        have hDN : D < N := by simp only [hDdef, hNdef]; linarith
        have ht : t = -tau * Real.log (N / D) := by rw [← h]; ring
        have hlog : Real.log (N / D) ≤ 0 := by
          have : -1 * tau * Real.log (N / D) ≥ 0 := hge
          nlinarith
        have hq1 : N / D ≤ 1 := by
          by_contra hc
          push Not at hc
          have := Real.log_pos hc
          linarith
        have hDneg : D < 0 := by
          by_contra hc
          push Not at hc
          have hDpos : 0 < D := lt_of_le_of_ne hc (Ne.symm hD)
          have : N ≤ D := by
            have := (div_le_one hDpos).mp hq1
            exact this
          linarith
        have hexp : Real.exp (-t / tau) = N / D := by
          have : -t / tau = Real.log (N / D) := by
            rw [ht]; field_simp
          rw [this, Real.exp_log hpos]
        refine ⟨by rw [← h]; exact hge, ?_, ?_⟩
        · rw [advance_eq, hexp]
          have : v - (v_leak + r * I) = D := by simp only [hDdef]; ring
          rw [this]
          field_simp
          simp only [hNdef]; ring
        · intro s hs0 hst
          rw [advance_eq]
          have hlt : Real.exp (-t / tau) < Real.exp (-s / tau) := by
            apply Real.exp_lt_exp.mpr
            apply div_lt_div_of_pos_right _ htau
            linarith
          have : v - (v_leak + r * I) = D := by simp only [hDdef]; ring
          rw [this]
          have h1 : D * Real.exp (-s / tau) < D * Real.exp (-t / tau) := by
            exact mul_lt_mul_of_neg_left hlt hDneg
          rw [hexp] at h1
          have h2 : D * (N / D) = N := by field_simp
          rw [h2] at h1
          have : v_threshold = (v_leak + r * I) + N := by simp only [hNdef]; ring
          rw [this]; linarith
      · cases h
    · cases h

/-- If no spike is predicted, the membrane never reaches the threshold. -/
theorem spike_none (htau : 0 < tau) (v I : ℝ) (hv : v < v_threshold)
    (h : nextSpikeTime tau r v_leak v_threshold v I = none) :
    ∀ s, 0 ≤ s → advance tau r v_leak v_threshold v I s < v_threshold := by
  intro s hs
  rw [advance_eq]
  set D := (v - v_leak) - r * I with hDdef
  set N := (v_threshold - v_leak) - r * I with hNdef
  have hDN : D < N := by simp only [hDdef, hNdef]; linarith
  have hD' : v - (v_leak + r * I) = D := by simp only [hDdef]; ring
  have hth : v_threshold = (v_leak + r * I) + N := by simp only [hNdef]; ring
  rw [hD', hth]
  have he1 := exp_le_one_of tau htau s hs
  have he0 : 0 < Real.exp (-s / tau) := Real.exp_pos _
  suffices D * Real.exp (-s / tau) < N by linarith
  unfold nextSpikeTime at h
  simp only at h
  split at h
  · rename_i hD0
    have : D = 0 := hD0
    rw [this]; simp; linarith
  · rename_i hD
    have hD : D ≠ 0 := hD
    split at h
    · rename_i hpos
      have hpos : N / D > 0 := hpos
      split at h
      · cases h
      · rename_i hneg
        have hneg : ¬ (-1 * tau * Real.log (N / D) ≥ 0) := hneg
        push Not at hneg
        have hlog : 0 < Real.log (N / D) := by nlinarith
        have hq : 1 < N / D := by
          by_contra hc
          push Not at hc
          have := Real.log_nonpos (le_of_lt hpos) hc
          linarith
        have hDpos : 0 < D := by
          by_contra hc
          push Not at hc
          have hDneg : D < 0 := lt_of_le_of_ne hc hD
          have : N < D := by
            have := (lt_div_iff_of_neg hDneg).mp hq
            linarith
          linarith
        have : D * Real.exp (-s / tau) ≤ D * 1 := mul_le_mul_of_nonneg_left he1 hDpos.le
        linarith
    · rename_i hnp
      have hnp : ¬ (N / D > 0) := hnp
      push Not at hnp
      have hDneg : D < 0 := by
        by_contra hc
        push Not at hc
        have hDpos : 0 < D := lt_of_le_of_ne hc (Ne.symm hD)
        have : N ≤ 0 := by
          have := (div_le_iff₀ hDpos).mp hnp
          simpa using this
        linarith
      have hN : 0 ≤ N := by
        have := (div_le_iff_of_neg hDneg).mp hnp
        simpa using this
      have : D * Real.exp (-s / tau) < 0 := mul_neg_of_neg_of_pos hDneg he0
      linarith


/-- Non-vacuity (parameters of the paper's run, but with a non-zero leak): the hypotheses of
`spike_some` are met and a spike is predicted. -/
example : ∃ t, nextSpikeTime 1 1 (1/4) 1 0 1 = some t := by
  unfold nextSpikeTime
  have h1 : ¬ ((0 : ℝ) - 1/4 - 1 * 1 = 0) := by norm_num
  have h2 : (((1 : ℝ) - 1/4 - 1 * 1) / (0 - 1/4 - 1 * 1)) > 0 := by norm_num
  have h3 : (-1 : ℝ) * 1 * Real.log ((1 - 1/4 - 1 * 1) / (0 - 1/4 - 1 * 1)) ≥ 0 := by
    have : Real.log (((1 : ℝ) - 1/4 - 1 * 1) / (0 - 1/4 - 1 * 1)) ≤ 0 :=
      Real.log_nonpos (by norm_num) (by norm_num)
    linarith
  simp only [h1, if_false, h2, if_true, h3]
  exact ⟨_, rfl⟩

end NirVerif.C20
