import NirVerif.Properties.C01
import NirVerif.Lemmas.Layout
import NirVerif.Properties.C03File

/-! # C01 (continued) — end to end **with metadata**, at any nesting depth of the metadata

`Back n d d'`: the dictionary `d'` is what a reader gets back for the dictionary `d` — same keys (an empty nested
`metadata` apart, which the file cannot carry), every plain value transported (`backVal`: as `create_dataset` stores
it and `item[()]` returns it), every nested dictionary related in the same way, nothing added.
`leaf_end_to_end_meta`: for a leaf primitive with **any non-empty metadata**, `nir.read` of the written file is the
class constructor applied to the transported field values and a `metadata` dictionary that is `Back`-related to the
original one. -/
namespace NirVerif.C01
open NirVerif NirVerif.Py NirVerif.Model NirVerif.Lemmas

def Back : Nat → List (String × Val) → List (String × Val) → Prop
  | 0, _, _ => False
  | n + 1, d, d' =>
    (d'.map Prod.fst).Nodup ∧
    (∀ k, lookup k d = none → lookup k d' = none) ∧
    (∀ k v, lookup k d = some v → k ≠ "metadata" → (∀ s, v ≠ .dict s) → lookup k d' = backVal v ∧ (backVal v).isSome) ∧
    ((∀ kv ∈ d, kv.1 = "metadata" → kv.2 = .dict []) → lookup "metadata" d' = none) ∧
    (∀ k s, lookup k d = some (.dict s) → ¬ (k = "metadata" ∧ s = []) →
        ∃ s', lookup k d' = some (.dict s') ∧ Back n s s')

/-- **Reader over an encoded group**: what `hdf2dict` returns for a group that encodes `d` is `Back`-related to `d`. -/
theorem back_of_encodes : ∀ (n : Nat) (d : List (String × Val)) (ms : List (String × H5)),
    Encodes n d ms → Back n d (hdf2dict.hdf2dictItems ms) := by
  intro n
  induction n with
  | zero => intro d ms h; exact absurd h (by simp [Encodes])
  | succ n ih =>
    intro d ms h
    obtain ⟨h1, h2, h3, h4, h5⟩ := h
    refine ⟨by rw [hdf2dictItems_keys]; exact h1, ?_, ?_, ?_, ?_⟩
    · intro k hk
      rw [hdf2dict_lookup, h2 k hk]; rfl
    · intro k v hk hkm hnd
      obtain ⟨ds, hc, hl⟩ := h3 k v hk hkm hnd
      rw [hdf2dict_lookup, hl]
      simp [backVal, hc, hdf2dict]
    · intro hm
      rw [hdf2dict_lookup, h4 hm]; rfl
    · intro k s hk hne
      obtain ⟨sub, hl, he⟩ := h5 k s hk hne
      refine ⟨hdf2dict.hdf2dictItems sub, ?_, ih s sub he⟩
      rw [hdf2dict_lookup, hl]
      simp [hdf2dict]

/-- **The file round trip factors through the dictionary form — for every node or graph, any nesting depth, any
metadata.**  Whenever `nir.write` succeeds, `nir.read` of the file is `from_dict` applied to a dictionary `D` that is
`Back`-related to `to_dict()` of what was written: same keys and nesting at every depth (an empty `metadata` apart),
every plain value transported, nothing added.  What `from_dict` then builds from such a dictionary is the subject of
the per-class theorems (`leaf_end_to_end`, `leaf_end_to_end_meta`, `graph_end_to_end`, C13). -/
theorem read_factors (version : String) (g : Node) (f : H5) (h : write version g = .ok f) :
    ∃ kvs D n, toDict g = .ok (.dict kvs) ∧ Back n kvs D ∧ read f = fromDict (.dict D) := by
  obtain ⟨kvs, ng, n, hd, hfile, henc⟩ := C03.file_exact version g f h
  subst hfile
  refine ⟨kvs, hdf2dict.hdf2dictItems ng, n, hd, back_of_encodes n kvs ng henc, ?_⟩
  simp [Model.read, h5Get, lookup, bind, Except.bind, hdf2dict]

/-- **End to end with metadata**, for every leaf primitive with the generic dictionary form: whenever `nir.write`
succeeds on a node carrying the non-empty metadata `md`, `nir.read` of the file is the class constructor applied to
the transported field values **and** the metadata dictionary `md'` the file returns, which is `Back`-related to `md`
(same keys and nesting, every value transported, nothing added) — whatever order the file lists anything in. -/
theorem leaf_end_to_end_meta (version kind : String) (fields : List (String × Val)) (it ot : Val)
    (md : List (String × Val)) (hmd : md ≠ [])
    (hw : kind ∈ Generated.whitelist)
    (hk : kind ≠ "NIRGraph" ∧ kind ≠ "Input" ∧ kind ≠ "Output" ∧ kind ≠ "Flatten")
    (hnt : lookup "type" fields = none) (hnm : lookup "metadata" fields = none)
    (hnd : ∀ k v, lookup k fields = some v → ∀ d, v ≠ .dict d)
    (kw' : List (String × Val)) (hkw : ∀ k, lookup k kw' = (lookup k fields).bind backVal)
    (f : H5) (hwr : write version (Node.mk kind fields it ot (.dict md) [] []) = .ok f) :
    ∃ md' n, Back n md md' ∧ read f = construct kind (Py.insert "metadata" (.dict md') kw') := by
  obtain ⟨kvs, ng, n, hd, hfile, henc⟩ := C03.file_exact version _ f hwr
  rw [C03.toDict_keys_generic kind fields it ot (.dict md) hk] at hd
  simp only [Except.ok.injEq, Val.dict.injEq] at hd
  subst hd
  subst hfile
  cases n with
  | zero => exact absurd henc (by simp [Encodes])
  | succ n =>
  obtain ⟨h1, h2, h3, h4, h5⟩ := henc
  have hlk : ∀ k, lookup k (fields ++ [("metadata", Val.dict md), ("type", Val.str kind)]) =
      (lookup k fields).or (lookup k [("metadata", Val.dict md), ("type", Val.str kind)]) := fun k => lookup_append k _ _
  -- the metadata group
  obtain ⟨sub, hsub, hencsub⟩ := h5 "metadata" md (by rw [hlk, hnm]; simp [lookup]) (by rintro ⟨_, e⟩; exact hmd e)
  refine ⟨hdf2dict.hdf2dictItems sub, n, back_of_encodes n md sub hencsub, ?_⟩
  have htype : lookup "type" (hdf2dict.hdf2dictItems ng) = some (.str kind) := by
    obtain ⟨ds, hc, hl⟩ := h3 "type" (.str kind) (by rw [hlk, hnt]; simp [lookup]) (by decide) (by intro d hd'; cases hd')
    rw [hdf2dict_lookup, hl]
    by_cases hz : kind.toList.contains (Char.ofNat 0) = true
    · simp only [h5Create, hz, if_true] at hc; cases hc
    · simp only [h5Create, hz, Bool.false_eq_true, if_false, Option.some.injEq] at hc
      subst hc; rfl
  have hnodup : ((hdf2dict.hdf2dictItems ng).map Prod.fst).Nodup := by rw [hdf2dictItems_keys]; exact h1
  simp only [Model.read, h5Get, lookup, beq_self_eq_true, if_true, bind, Except.bind, hdf2dict]
  rw [C18.fromDict_generic _ kind htype hw ⟨hk.2.1, hk.2.2.1, hk.2.2.2, hk.1⟩]
  have hD : ∀ k, lookup k (erase "type" (hdf2dict.hdf2dictItems ng)) =
      lookup k (Py.insert "metadata" (.dict (hdf2dict.hdf2dictItems sub)) kw') := by
    intro k
    rw [lookup_erase_nodup _ _ _ hnodup, lookup_insert_eq]
    by_cases hkt : k = "type"
    · subst hkt
      simp [hkw, hnt]
    · simp only [hkt, if_false]
      by_cases hkm : k = "metadata"
      · subst hkm
        rw [hdf2dict_lookup, hsub]
        simp [hdf2dict]
      · simp only [hkm, if_false, hkw]
        cases hf : lookup k fields with
        | some v =>
          obtain ⟨ds, hc, hl⟩ := h3 k v (by rw [hlk, hf]; rfl) hkm (hnd k v hf)
          rw [hdf2dict_lookup, hl]
          simp [backVal, hc, hdf2dict]
        | none =>
          rw [hdf2dict_lookup, h2 k (by rw [hlk, hf]; simp [lookup, Ne.symm hkm, Ne.symm hkt])]
          rfl
  unfold construct
  cases lookup kind Generated.classFields with
  | none => rfl
  | some spec =>
    simp only
    rw [bindKwargs_congr _ (Py.insert "metadata" (.dict (hdf2dict.hdf2dictItems sub)) kw') spec
      (by simp only [hD]) (by intro p _; simp only [bindOne, hD])]

/-- the file-native corollary: for field values the file returns unchanged (every node that itself came out of
`nir.read`), the constructor is re-run on the node's own field values plus the returned metadata -/
theorem leaf_native_roundtrip_meta (version kind : String) (fields : List (String × Val)) (it ot : Val)
    (md : List (String × Val)) (hmd : md ≠ [])
    (hw : kind ∈ Generated.whitelist)
    (hk : kind ≠ "NIRGraph" ∧ kind ≠ "Input" ∧ kind ≠ "Output" ∧ kind ≠ "Flatten")
    (hnt : lookup "type" fields = none) (hnm : lookup "metadata" fields = none)
    (hnative : ∀ k v, lookup k fields = some v → backVal v = some v)
    (f : H5) (hwr : write version (Node.mk kind fields it ot (.dict md) [] []) = .ok f) :
    ∃ md' n, Back n md md' ∧ read f = construct kind (Py.insert "metadata" (.dict md') fields) := by
  apply leaf_end_to_end_meta version kind fields it ot md hmd hw hk hnt hnm _ fields _ f hwr
  · intro k v hl d hv
    have := hnative k v hl
    subst hv
    simp [backVal, h5Create] at this
  · intro k
    cases hl : lookup k fields with
    | none => rfl
    | some v => simp [hnative k v hl]

/-- Non-vacuity: the LIF node of C01 carrying `{"k": 1, "deep": {"a": <array>}}` is written (kernel-evaluated), so
every hypothesis is met; the theorem yields the metadata dictionary the reader returns and the constructor call. -/
def exMeta : List (String × Val) := [("k", .int 1), ("deep", .dict [("a", .arr DType.float64 [2] [])])]

example : ∃ f md' n, write "0.2.0" (Node.mk "LIF" exLifFields (typeDict "input" (Val.ofInts [2]))
      (typeDict "output" (Val.ofInts [2])) (.dict exMeta) [] []) = .ok f ∧
    Back n exMeta md' ∧ read f = construct "LIF" (Py.insert "metadata" (.dict md') exLifFields) := by
  have hw : (write "0.2.0" (Node.mk "LIF" exLifFields (typeDict "input" (Val.ofInts [2]))
      (typeDict "output" (Val.ofInts [2])) (.dict exMeta) [] [])).toBool = true := by decide +kernel
  cases hf : write "0.2.0" (Node.mk "LIF" exLifFields (typeDict "input" (Val.ofInts [2]))
      (typeDict "output" (Val.ofInts [2])) (.dict exMeta) [] []) with
  | error e => rw [hf] at hw; cases hw
  | ok f =>
    obtain ⟨md', n, hb, hr⟩ := leaf_native_roundtrip_meta "0.2.0" "LIF" exLifFields _ _ exMeta (by decide) (by decide)
      (by decide) rfl rfl (by
        intro k v hl
        simp only [exLifFields, lookup] at hl
        repeat' split at hl
        all_goals (first | cases hl | skip)
        all_goals exact backVal_array _ _ _ _ (by decide)) f hf
    exact ⟨f, md', n, rfl, hb, hr⟩

end NirVerif.C01
