import NirVerif.Properties.C20Crossings
import NirVerif.Model.CubaRun

/-! # C20 (continued) — the whole CubaLIF reference run is the iterated forward-Euler update

About `Model.CubaRun.run` (hand-written model of `run_cuba_reference_model`, executed on `Float` against the Python
bit for bit) around the **generated** `cubaForward`. -/
namespace NirVerif.C20
open NirVerif.Generated.CubaReal NirVerif.Model.CubaRun

/-- one step of the documented CubaLIF dynamics, forward Euler with step `dt`, strict threshold, reset by subtraction:
from synaptic current `I` and membrane voltage `v` under input `x` to (spike, new voltage, new current) -/
noncomputable def eulerStep (dt tau_syn tau_mem R vl vthr w : ℝ) (I v x : ℝ) : ℝ × ℝ × ℝ :=
  let I' := I + dt * ((-I + w * x) / tau_syn)
  let v' := v + dt * (((vl - v) + R * I) / tau_mem)
  (if v' > vthr then 1 else 0, if v' > vthr then v' - vthr else v', I')

/-- the documented dynamics iterated from a given state -/
noncomputable def eulerRun (dt tau_syn tau_mem R vl vthr w : ℝ) (I v : ℝ) : List ℝ → List (ℝ × ℝ × ℝ)
  | [] => []
  | x :: xs =>
    let r := eulerStep dt tau_syn tau_mem R vl vthr w I v x
    r :: eulerRun dt tau_syn tau_mem R vl vthr w r.2.2 r.2.1 xs

theorem cuba_go_euler (dt tau_syn tau_mem R vl vthr w : ℝ) (xs : List ℝ) (I v : ℝ) :
    go (cubaForward dt tau_syn tau_mem R vl vthr w) I v xs = eulerRun dt tau_syn tau_mem R vl vthr w I v xs := by
  induction xs generalizing I v with
  | nil => rfl
  | cons x xs ih =>
    have h := cuba_euler dt tau_syn tau_mem R vl vthr w I v x
    simp only at h
    simp only [go, eulerRun, eulerStep, h]
    rw [ih]

/-- (`cuba_go_euler` above is the statement for a run that starts from *any* state `(I, v)` — a model that has been
used before goes on from where it stopped.)
**The whole reference run** — any number of time steps, any input sequence, from the zero state the constructor
sets up — returns, step by step, exactly the spikes, voltages and currents of the forward-Euler iteration of the
documented CubaLIF equations. -/
theorem cuba_run_euler (dt tau_syn tau_mem R vl vthr w : ℝ) (xs : List ℝ) :
    run (cubaForward dt tau_syn tau_mem R vl vthr w) 0 xs = eulerRun dt tau_syn tau_mem R vl vthr w 0 0 xs :=
  cuba_go_euler dt tau_syn tau_mem R vl vthr w xs 0 0

theorem go_length {α : Type} (fwd : α → α → α → α × α × α) (xs : List α) (I v : α) :
    (go fwd I v xs).length = xs.length := by
  induction xs generalizing I v with
  | nil => rfl
  | cons x xs ih => simp only [go, List.length_cons, ih]

/-- as many result rows as time steps -/
theorem cuba_run_length (dt tau_syn tau_mem R vl vthr w : ℝ) (xs : List ℝ) :
    (run (cubaForward dt tau_syn tau_mem R vl vthr w) 0 xs).length = xs.length :=
  go_length _ xs 0 0

/-- Non-vacuity: two steps with dyadic parameters (dt = 1/2, all time constants 1, R = 1, leak 0, threshold 1/4,
weight 1, input 1 then 0): current 1/2 then 1/4, voltage 0 then 1/4 — exactly on the threshold, which is *not* a
spike (strict comparison). -/
example : run (cubaForward (1/2) 1 1 1 0 (1/4) 1) 0 [1, 0] = [(0, 0, 1/2), (0, 1/4, 1/4)] := by
  rw [cuba_run_euler]
  simp only [eulerRun, eulerStep]
  norm_num

end NirVerif.C20
