import NirVerif.Properties.C08
import NirVerif.Properties.C05

/-! # C08 — constructor-built nodes meet the per-node condition of `restore_keyed`

`C08.restore_keyed` (and with it `C14.commute_keyed`) asks every node of the graph to satisfy `NodeOKK n (τ k)`.  For the
parameterised primitives that condition is not an assumption about the graph but a *consequence of how nodes are built*:
whatever `postInit` returns for an `Affine` / `Linear` / element-wise / neuron class declares int64 vectors holding the
shapes the mathematics implies (C05), and a node declaring such vectors is `NodeOKK` for exactly those shapes. -/
namespace NirVerif.C08
open NirVerif NirVerif.Py NirVerif.Model NirVerif.Lemmas

theorem fits_ofNat (s : List Nat) (h : ∀ x ∈ s, x < 2 ^ 63) : FitsI64 (s.map Int.ofNat) := by
  intro x hx
  obtain ⟨y, hy, rfl⟩ := List.mem_map.mp hx
  have := h y hy
  refine ⟨Int.natCast_nonneg y, ?_⟩
  show (y : Int) < 2 ^ 63
  omega

/-- a node that is not a port and declares int64 vectors holding `si` / `so` (C05's `Declares`) meets the per-node condition
for the typing that gives it `(si, so)` -/
theorem nodeOKK_of_declares (n : Node) (si so : List Nat) (hk : n.kind ≠ "Output")
    (hi : C05.Declares n.inputType "input" si) (ho : C05.Declares n.outputType "output" so)
    (hfi : ∀ x ∈ si, x < 2 ^ 63) (hfo : ∀ x ∈ so, x < 2 ^ 63) :
    NodeOKK n (si.map Int.ofNat, so.map Int.ofNat) := by
  have hvi : Val.arr DType.int64 [si.length] (encodeInts DType.int64 (si.map Int.ofNat)) = Val.ofInts (si.map Int.ofNat) := by
    simp [Val.ofInts]
  have hvo : Val.arr DType.int64 [so.length] (encodeInts DType.int64 (so.map Int.ofNat)) = Val.ofInts (so.map Int.ofNat) := by
    simp [Val.ofInts]
  unfold C05.Declares at hi ho
  rw [hvi] at hi
  rw [hvo] at ho
  refine ⟨⟨_, hi, Or.inr (by rw [shapeOfVal_ofInts _ (fits_ofNat si hfi)]; rfl), wf_ofInts _⟩, ?_⟩
  iterate 6 right
  exact ⟨hk, _, ho, shapeOfVal_ofInts _ (fits_ofNat so hfo), wf_ofInts _⟩

/-- Affine / Linear as built: `NodeOKK` for `(batch ++ [n], batch ++ [m])` -/
theorem built_affine_linear (kind : String) (hk : kind = "Affine" ∨ kind = "Linear")
    (f : List (String × Val)) (dt : DType) (batch : List Nat) (m n : Nat) (d : Bytes)
    (hw : lookup "weight" f = some (.arr dt (batch ++ [m, n]) d))
    (hfit : ∀ x ∈ batch ++ [m, n], x < 2 ^ 63) :
    ∃ node, postInit kind f = .ok node ∧
      NodeOKK node ((batch ++ [n]).map Int.ofNat, (batch ++ [m]).map Int.ofNat) := by
  obtain ⟨node, hp, hi, ho, _⟩ := C05.affine_linear kind hk f dt batch m n d hw
  refine ⟨node, hp, nodeOKK_of_declares node _ _ ?_ hi ho ?_ ?_⟩
  · have : node.kind = kind := by
      rcases hk with rfl | rfl <;>
        (unfold postInit at hp; simp only [bind, Except.bind, pure, Except.pure] at hp
         repeat' split at hp
         all_goals (first | cases hp | skip)
         all_goals rfl)
    rw [this]; rcases hk with rfl | rfl <;> decide
  · intro x hx; exact hfit x (by simp at hx ⊢; rcases hx with h | h; exact Or.inl h; exact Or.inr (Or.inr h))
  · intro x hx; exact hfit x (by simp at hx ⊢; rcases hx with h | h; exact Or.inl h; exact Or.inr (Or.inl h))

/-- the node `postInit` returns carries the class it was asked for -/
theorem postInit_kind (kind : String)
    (hk : kind ∈ ["Affine", "Linear", "Scale", "Threshold", "Delay", "I", "IF", "LI", "LIF"])
    (f : List (String × Val)) (node : Node) (hp : postInit kind f = .ok node) : node.kind = kind := by
  simp only [List.mem_cons, List.mem_nil_iff, or_false] at hk
  rcases hk with rfl | rfl | rfl | rfl | rfl | rfl | rfl | rfl | rfl <;>
    (unfold postInit at hp; simp only [bind, Except.bind, pure, Except.pure] at hp
     repeat' split at hp
     all_goals (first | cases hp | skip)
     all_goals rfl)

/-- Scale / Threshold / Delay / I as built: `NodeOKK` for `(sh, sh)` -/
theorem built_elementwise (kind field : String)
    (hk : (kind, field) ∈ [("Scale", "scale"), ("Threshold", "threshold"), ("Delay", "delay"), ("I", "r")])
    (f : List (String × Val)) (dt : DType) (sh : List Nat) (d : Bytes)
    (hp : lookup field f = some (.arr dt sh d)) (hfit : ∀ x ∈ sh, x < 2 ^ 63) :
    ∃ node, postInit kind f = .ok node ∧ NodeOKK node (sh.map Int.ofNat, sh.map Int.ofNat) := by
  obtain ⟨node, hpi, hi, ho, _⟩ := C05.elementwise1 kind field hk f dt sh d hp
  have hkind : node.kind = kind := postInit_kind kind (by
    simp only [List.mem_cons, Prod.mk.injEq, List.mem_nil_iff, or_false] at hk
    rcases hk with ⟨rfl, _⟩ | ⟨rfl, _⟩ | ⟨rfl, _⟩ | ⟨rfl, _⟩ <;> decide) f node hpi
  refine ⟨node, hpi, nodeOKK_of_declares node sh sh ?_ hi ho hfit hfit⟩
  rw [hkind]
  simp only [List.mem_cons, Prod.mk.injEq, List.mem_nil_iff, or_false] at hk
  rcases hk with ⟨rfl, _⟩ | ⟨rfl, _⟩ | ⟨rfl, _⟩ | ⟨rfl, _⟩ <;> decide

/-- IF / LI / LIF as built: `NodeOKK` for `(sh, sh)` -/
theorem built_neuron (kind : String) (fields : List String)
    (hk : (kind, fields) ∈ [("IF", ["r", "v_threshold"]), ("LI", ["tau", "r", "v_leak"]),
                            ("LIF", ["tau", "r", "v_leak", "v_threshold"])])
    (f : List (String × Val)) (sh : List Nat)
    (hp : ∀ fld ∈ fields, ∃ dt d, lookup fld f = some (.arr dt sh d)) (hfit : ∀ x ∈ sh, x < 2 ^ 63) :
    ∃ node, postInit kind f = .ok node ∧ NodeOKK node (sh.map Int.ofNat, sh.map Int.ofNat) := by
  obtain ⟨node, hpi, hi, ho⟩ := C05.neuron kind fields hk f sh hp
  have hkind : node.kind = kind := postInit_kind kind (by
    simp only [List.mem_cons, Prod.mk.injEq, List.mem_nil_iff, or_false] at hk
    rcases hk with ⟨rfl, _⟩ | ⟨rfl, _⟩ | ⟨rfl, _⟩ <;> decide) f node hpi
  refine ⟨node, hpi, nodeOKK_of_declares node sh sh ?_ hi ho hfit hfit⟩
  rw [hkind]
  simp only [List.mem_cons, Prod.mk.injEq, List.mem_nil_iff, or_false] at hk
  rcases hk with ⟨rfl, _⟩ | ⟨rfl, _⟩ | ⟨rfl, _⟩ <;> decide

end NirVerif.C08
