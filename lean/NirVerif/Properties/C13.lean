import NirVerif.Properties.C18
import NirVerif.Properties.C03
import NirVerif.Lemmas.Idempotent
import NirVerif.Lemmas.IdempotentConv2d
import NirVerif.Lemmas.DictExact
import NirVerif.Lemmas.IdempotentFlatten

/-! # C13 — the dictionary form is a faithful, independent copy

About `Model.toDict` / `Model.fromDict`.  Values in the model are immutable (`Val`), so the
dictionary cannot share mutable state with the graph *in the model*; that the real
`to_dict` creates fresh objects (no common `id`, no shared memory, mutation of one side
invisible on the other) is observed by the `dicts` correspondence/oracle suite on every run.
Kernel-checked here: what the dictionary contains, and that reading it back re-runs the
constructor on exactly the node's own field values. -/
namespace NirVerif.C13
open NirVerif NirVerif.Py NirVerif.Model NirVerif.Lemmas

/-- **Keys**: the dictionary of a leaf primitive has exactly the node's fields (in order),
`metadata` and `type` — the documented names by `C03.names`. -/
theorem keys (kind : String) (fields : List (String × Val)) (it ot md : Val)
    (hk : kind ≠ "NIRGraph" ∧ kind ≠ "Input" ∧ kind ≠ "Output" ∧ kind ≠ "Flatten") :
    ∃ d, toDict (Node.mk kind fields it ot md [] []) = .ok (.dict d) ∧
      d.map Prod.fst = fields.map Prod.fst ++ ["metadata", "type"] :=
  ⟨_, C03.toDict_keys_generic kind fields it ot md hk, by simp⟩

/-- derived types are never part of the dictionary form -/
theorem no_types (kind : String) (fields : List (String × Val)) (it ot md : Val)
    (hk : kind ≠ "NIRGraph" ∧ kind ≠ "Input" ∧ kind ≠ "Output" ∧ kind ≠ "Flatten")
    (hf : lookup "input_type" fields = none ∧ lookup "output_type" fields = none) :
    ∃ d, toDict (Node.mk kind fields it ot md [] []) = .ok (.dict d) ∧
      lookup "input_type" d = none ∧ lookup "output_type" d = none := by
  refine ⟨_, C03.toDict_keys_generic kind fields it ot md hk, ?_, ?_⟩
  · induction fields with
    | nil => simp [lookup]
    | cons kv rest ih =>
      obtain ⟨k0, v0⟩ := kv
      simp only [lookup] at hf
      by_cases h0 : (k0 == "input_type") = true
      · simp [h0] at hf
      · simp only [h0, Bool.false_eq_true, if_false] at hf
        by_cases h1 : (k0 == "output_type") = true
        · simp [h1] at hf
        · simp only [h1, Bool.false_eq_true, if_false] at hf
          simp only [List.cons_append, lookup, h0, Bool.false_eq_true, if_false]
          exact ih hf
  · induction fields with
    | nil => simp [lookup]
    | cons kv rest ih =>
      obtain ⟨k0, v0⟩ := kv
      simp only [lookup] at hf
      by_cases h0 : (k0 == "input_type") = true
      · simp [h0] at hf
      · simp only [h0, Bool.false_eq_true, if_false] at hf
        by_cases h1 : (k0 == "output_type") = true
        · simp [h1] at hf
        · simp only [h1, Bool.false_eq_true, if_false] at hf
          simp only [List.cons_append, lookup, h1, Bool.false_eq_true, if_false]
          exact ih hf

theorem erase_type_append (fields : List (String × Val)) (md : Val) (kind : String)
    (hnt : lookup "type" fields = none) :
    erase "type" (fields ++ [("metadata", md), ("type", Val.str kind)]) = fields ++ [("metadata", md)] := by
  induction fields with
  | nil => simp [erase]
  | cons kv rest ih =>
    obtain ⟨k0, v0⟩ := kv
    simp only [lookup] at hnt
    by_cases h0 : (k0 == "type") = true
    · simp [h0] at hnt
    · simp only [h0, Bool.false_eq_true, if_false] at hnt
      simp only [List.cons_append, erase, h0, Bool.false_eq_true, if_false, ih hnt]

theorem lookup_type_append (fields : List (String × Val)) (md : Val) (kind : String)
    (hnt : lookup "type" fields = none) :
    lookup "type" (fields ++ [("metadata", md), ("type", Val.str kind)]) = some (.str kind) := by
  induction fields with
  | nil => simp [lookup]
  | cons kv rest ih =>
    obtain ⟨k0, v0⟩ := kv
    simp only [lookup] at hnt
    by_cases h0 : (k0 == "type") = true
    · simp [h0] at hnt
    · simp only [h0, Bool.false_eq_true, if_false] at hnt
      simp only [List.cons_append, lookup, h0, Bool.false_eq_true, if_false, ih hnt]

/-- **Round trip**: `from_dict(to_dict(n))` re-runs the class constructor on exactly the node's
own current field values and metadata — identical Python/numpy value types, `None`
annotations (e.g. an erased Conv `input_shape`) carried as they are. -/
theorem roundtrip (kind : String) (fields : List (String × Val)) (it ot md : Val)
    (hw : kind ∈ Generated.whitelist)
    (hk : kind ≠ "NIRGraph" ∧ kind ≠ "Input" ∧ kind ≠ "Output" ∧ kind ≠ "Flatten")
    (hnt : lookup "type" fields = none) :
    (toDict (Node.mk kind fields it ot md [] [])).bind fromDict
      = construct kind (fields ++ [("metadata", md)]) := by
  rw [C03.toDict_keys_generic kind fields it ot md hk]
  simp only [Except.bind]
  rw [C18.fromDict_generic _ kind (lookup_type_append fields md kind hnt) hw ⟨hk.2.1, hk.2.2.1, hk.2.2.2, hk.1⟩,
    erase_type_append fields md kind hnt]

/-- **Exact round trip**: a node built by the constructor of a class that stores its parameters
unchanged (Affine, Linear, Scale, Threshold, Delay, I, IF, LI, LIF, SumPool2d, AvgPool2d, Conv1d;
derived types not passed explicitly) comes back from `from_dict(to_dict(n))` as exactly the same
node — same fields, same value types, same derived types, same metadata. -/
theorem roundtrip_exact (kind : String) (kw : List (String × Val)) (n : Node) (hk : kind ∈ simpleKinds)
    (h : construct kind kw = .ok n)
    (hnot : lookup "input_type" kw = none ∧ lookup "output_type" kw = none) :
    (toDict n).bind fromDict = .ok n := by
  obtain ⟨hkind, hc, he⟩ := construct_kind kind kw n h
  obtain ⟨hnt, _⟩ := construct_fields_clean kind kw n hk h
  have hidem := construct_idem kind kw n hk h hnot
  obtain ⟨hw, hg⟩ := simple_generic kind hk
  cases n with
  | mk k f i o m c e =>
    simp only [Node.kind, Node.children, Node.edges, Node.fields, Node.metadata] at hkind hc he hnt hidem
    subst hkind hc he
    rw [roundtrip k f i o m hw hg hnt]
    exact hidem

/-- … and the same for **Conv2d**, whose constructor normalises integer stride / padding /
dilation to pairs: on the stored (paired) values it is the identity. -/
theorem roundtrip_exact_conv2d (kw : List (String × Val)) (n : Node) (h : construct "Conv2d" kw = .ok n) :
    (toDict n).bind fromDict = .ok n := by
  obtain ⟨hkind, hc, he⟩ := construct_kind "Conv2d" kw n h
  obtain ⟨hnt, _⟩ := construct_conv2d_clean kw n h
  have hidem := construct_idem_conv2d kw n h
  cases n with
  | mk k f i o m c e =>
    simp only [Node.kind, Node.children, Node.edges, Node.fields, Node.metadata] at hkind hc he hnt hidem
    subst hkind hc he
    rw [roundtrip "Conv2d" f i o m (by decide) (by decide) hnt]
    exact hidem

/-- … and for **Input / Output** nodes (their dictionary form stores the bare shape under `shape`
and `from_dict` re-wraps it): any Input whose types are the single-port dictionaries of one shape
value — what the constructor produces for an ndarray, list, tuple or `None` argument — with any
metadata, comes back as exactly the same node. -/
theorem roundtrip_exact_input (s md : Val) :
    (toDict (Node.mk "Input" [] (typeDict "input" s) (typeDict "output" s) md [] [])).bind fromDict
      = .ok (Node.mk "Input" [] (typeDict "input" s) (typeDict "output" s) md [] []) := by
  simp only [toDict, typeEntry, getItem, typeDict, lookup, beq_self_eq_true, if_true, bind, Except.bind, pure, Except.pure,
    List.nil_append]
  have hc : Generated.whitelist.contains "Input" = true := by decide
  simp only [fromDict, fromDictFuel, lookup, String.reduceBEq, Bool.false_eq_true, if_false, beq_self_eq_true, if_true,
    str2NIRNode, hc, bind, Except.bind, pure, Except.pure, Py.insert, erase, typeDict]
  rfl

theorem roundtrip_exact_output (s md : Val) :
    (toDict (Node.mk "Output" [] (typeDict "input" s) (typeDict "output" s) md [] [])).bind fromDict
      = .ok (Node.mk "Output" [] (typeDict "input" s) (typeDict "output" s) md [] []) := by
  simp only [toDict, typeEntry, getItem, typeDict, lookup, beq_self_eq_true, if_true, bind, Except.bind, pure, Except.pure,
    List.nil_append]
  have hc : Generated.whitelist.contains "Output" = true := by decide
  simp only [fromDict, fromDictFuel, lookup, String.reduceBEq, Bool.false_eq_true, if_false, beq_self_eq_true, if_true,
    str2NIRNode, hc, bind, Except.bind, pure, Except.pure, Py.insert, erase, typeDict]
  rfl

/-- … and for **Flatten** (the dictionary stores the bare input shape under `input_type`;
`from_dict` re-wraps it and the constructor recomputes the output type): a constructor-built
Flatten whose input type is a single-port dictionary — defined or `None` — comes back as exactly
the same node, at any nesting fuel. -/
theorem roundtrip_exact_flatten (kw : List (String × Val)) (n : Node) (h : construct "Flatten" kw = .ok n)
    (s : Val) (hs : n.inputType = typeDict "input" s) : DictExact n :=
  dictExact_flatten kw n h s hs

/-- **Exact round trip of whole flat graphs**: a graph (any edge list, any metadata, unique node
names) whose children each round-trip exactly — constructor-built nodes of the 12 parameter-storing
classes and Conv2d (`dictExact_simple`, `dictExact_conv2d`), Flatten (`dictExact_flatten`), Inputs and
Outputs (`dictExact_input`, `dictExact_output`): 16 of the 17 leaf classes — comes back from `NIRGraph.from_dict(g.to_dict())` as exactly the same graph:
same children in the same order, same edges, same metadata, same mirrored interface. -/
theorem graph_roundtrip_exact (children : List (String × Node)) (edges : List Edge) (md : Val)
    (hkeys : (children.map Prod.fst).Nodup) (h : ∀ kn ∈ children, DictExact kn.2) :
    (toDict (mkGraph children edges md)).bind fromDict = .ok (mkGraph children edges md) :=
  graph_dict_exact children edges md hkeys h

/-- Non-vacuity: Input → LIF (constructor-built, self-loop) → Output with graph metadata. -/
example :
    let lif := Node.mk "LIF" [("tau", .arr DType.float64 [2] []), ("r", .arr DType.float64 [2] []),
        ("v_leak", .arr DType.float64 [2] []), ("v_threshold", .arr DType.float64 [2] [])]
        (typeDict "input" (Val.ofInts [2])) (typeDict "output" (Val.ofInts [2])) (.dict []) [] []
    let g := mkGraph [("in", Node.mk "Input" [] (typeDict "input" (Val.ofInts [2])) (typeDict "output" (Val.ofInts [2])) (.dict []) [] []),
        ("lif", lif),
        ("out", Node.mk "Output" [] (typeDict "input" (Val.ofInts [2])) (typeDict "output" (Val.ofInts [2])) (.dict [("k", .int 1)]) [] [])]
      [("in", "lif"), ("lif", "lif"), ("lif", "out")] (.dict [("note", .str "x")])
    (toDict g).bind fromDict = .ok g := by
  intro lif g
  apply graph_roundtrip_exact _ _ _ (by decide)
  intro kn hkn
  simp only [List.mem_cons, List.mem_nil_iff, or_false] at hkn
  rcases hkn with rfl | rfl | rfl
  · exact dictExact_input _ _
  · exact dictExact_simple "LIF" [("tau", .arr DType.float64 [2] []), ("r", .arr DType.float64 [2] []),
      ("v_leak", .arr DType.float64 [2] []), ("v_threshold", .arr DType.float64 [2] [])] lif (by decide) (by rfl) ⟨rfl, rfl⟩
  · exact dictExact_output _ _

/-- Non-vacuity: a Conv1d with an erased (`None`) input shape — which the file form cannot
carry — goes through the dictionary form and the constructor sees `None` again. -/
example : ∃ d, toDict (Node.mk "Conv1d" [("input_shape", .none), ("weight", .arr DType.float64 [2, 1, 3] [])]
    (typeDict "input" .none) (typeDict "output" .none) (.dict []) [] []) = .ok (.dict d) ∧
    lookup "input_shape" d = some .none := ⟨_, rfl, rfl⟩

end NirVerif.C13
