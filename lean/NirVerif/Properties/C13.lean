import NirVerif.Properties.C18
import NirVerif.Properties.C03
import NirVerif.Lemmas.Idempotent
import NirVerif.Lemmas.IdempotentConv2d

/-! # C13 — the dictionary form is a faithful, independent copy

About `Model.toDict` / `Model.fromDict`.  Values in the model are immutable (`Val`), so the
dictionary cannot share mutable state with the graph *in the model*; that the real
`to_dict` creates fresh objects (no common `id`, no shared memory, mutation of one side
invisible on the other) is observed by the `dicts` correspondence/oracle suite on every run.
Kernel-checked here: what the dictionary contains, and that reading it back re-runs the
constructor on exactly the node's own field values. -/
namespace NirVerif.C13
open NirVerif NirVerif.Py NirVerif.Model NirVerif.Lemmas

/-- **Keys**: the dictionary of a leaf primitive has exactly the node's fields (in order),
`metadata` and `type` — the documented names by `C03.names`. -/
theorem keys (kind : String) (fields : List (String × Val)) (it ot md : Val)
    (hk : kind ≠ "NIRGraph" ∧ kind ≠ "Input" ∧ kind ≠ "Output" ∧ kind ≠ "Flatten") :
    ∃ d, toDict (Node.mk kind fields it ot md [] []) = .ok (.dict d) ∧
      d.map Prod.fst = fields.map Prod.fst ++ ["metadata", "type"] :=
  ⟨_, C03.toDict_keys_generic kind fields it ot md hk, by simp⟩

/-- derived types are never part of the dictionary form -/
theorem no_types (kind : String) (fields : List (String × Val)) (it ot md : Val)
    (hk : kind ≠ "NIRGraph" ∧ kind ≠ "Input" ∧ kind ≠ "Output" ∧ kind ≠ "Flatten")
    (hf : lookup "input_type" fields = none ∧ lookup "output_type" fields = none) :
    ∃ d, toDict (Node.mk kind fields it ot md [] []) = .ok (.dict d) ∧
      lookup "input_type" d = none ∧ lookup "output_type" d = none := by
  refine ⟨_, C03.toDict_keys_generic kind fields it ot md hk, ?_, ?_⟩
  · induction fields with
    | nil => simp [lookup]
    | cons kv rest ih =>
      obtain ⟨k0, v0⟩ := kv
      simp only [lookup] at hf
      by_cases h0 : (k0 == "input_type") = true
      · simp [h0] at hf
      · simp only [h0, Bool.false_eq_true, if_false] at hf
        by_cases h1 : (k0 == "output_type") = true
        · simp [h1] at hf
        · simp only [h1, Bool.false_eq_true, if_false] at hf
          simp only [List.cons_append, lookup, h0, Bool.false_eq_true, if_false]
          exact ih hf
  · induction fields with
    | nil => simp [lookup]
    | cons kv rest ih =>
      obtain ⟨k0, v0⟩ := kv
      simp only [lookup] at hf
      by_cases h0 : (k0 == "input_type") = true
      · simp [h0] at hf
      · simp only [h0, Bool.false_eq_true, if_false] at hf
        by_cases h1 : (k0 == "output_type") = true
        · simp [h1] at hf
        · simp only [h1, Bool.false_eq_true, if_false] at hf
          simp only [List.cons_append, lookup, h1, Bool.false_eq_true, if_false]
          exact ih hf

theorem erase_type_append (fields : List (String × Val)) (md : Val) (kind : String)
    (hnt : lookup "type" fields = none) :
    erase "type" (fields ++ [("metadata", md), ("type", Val.str kind)]) = fields ++ [("metadata", md)] := by
  induction fields with
  | nil => simp [erase]
  | cons kv rest ih =>
    obtain ⟨k0, v0⟩ := kv
    simp only [lookup] at hnt
    by_cases h0 : (k0 == "type") = true
    · simp [h0] at hnt
    · simp only [h0, Bool.false_eq_true, if_false] at hnt
      simp only [List.cons_append, erase, h0, Bool.false_eq_true, if_false, ih hnt]

theorem lookup_type_append (fields : List (String × Val)) (md : Val) (kind : String)
    (hnt : lookup "type" fields = none) :
    lookup "type" (fields ++ [("metadata", md), ("type", Val.str kind)]) = some (.str kind) := by
  induction fields with
  | nil => simp [lookup]
  | cons kv rest ih =>
    obtain ⟨k0, v0⟩ := kv
    simp only [lookup] at hnt
    by_cases h0 : (k0 == "type") = true
    · simp [h0] at hnt
    · simp only [h0, Bool.false_eq_true, if_false] at hnt
      simp only [List.cons_append, lookup, h0, Bool.false_eq_true, if_false, ih hnt]

/-- **Round trip**: `from_dict(to_dict(n))` re-runs the class constructor on exactly the node's
own current field values and metadata — identical Python/numpy value types, `None`
annotations (e.g. an erased Conv `input_shape`) carried as they are. -/
theorem roundtrip (kind : String) (fields : List (String × Val)) (it ot md : Val)
    (hw : kind ∈ Generated.whitelist)
    (hk : kind ≠ "NIRGraph" ∧ kind ≠ "Input" ∧ kind ≠ "Output" ∧ kind ≠ "Flatten")
    (hnt : lookup "type" fields = none) :
    (toDict (Node.mk kind fields it ot md [] [])).bind fromDict
      = construct kind (fields ++ [("metadata", md)]) := by
  rw [C03.toDict_keys_generic kind fields it ot md hk]
  simp only [Except.bind]
  rw [C18.fromDict_generic _ kind (lookup_type_append fields md kind hnt) hw ⟨hk.2.1, hk.2.2.1, hk.2.2.2, hk.1⟩,
    erase_type_append fields md kind hnt]

/-- **Exact round trip**: a node built by the constructor of a class that stores its parameters
unchanged (Affine, Linear, Scale, Threshold, Delay, I, IF, LI, LIF, SumPool2d, AvgPool2d, Conv1d;
derived types not passed explicitly) comes back from `from_dict(to_dict(n))` as exactly the same
node — same fields, same value types, same derived types, same metadata. -/
theorem roundtrip_exact (kind : String) (kw : List (String × Val)) (n : Node) (hk : kind ∈ simpleKinds)
    (h : construct kind kw = .ok n)
    (hnot : lookup "input_type" kw = none ∧ lookup "output_type" kw = none) :
    (toDict n).bind fromDict = .ok n := by
  obtain ⟨hkind, hc, he⟩ := construct_kind kind kw n h
  obtain ⟨hnt, _⟩ := construct_fields_clean kind kw n hk h
  have hidem := construct_idem kind kw n hk h hnot
  obtain ⟨hw, hg⟩ := simple_generic kind hk
  cases n with
  | mk k f i o m c e =>
    simp only [Node.kind, Node.children, Node.edges, Node.fields, Node.metadata] at hkind hc he hnt hidem
    subst hkind hc he
    rw [roundtrip k f i o m hw hg hnt]
    exact hidem

/-- … and the same for **Conv2d**, whose constructor normalises integer stride / padding /
dilation to pairs: on the stored (paired) values it is the identity. -/
theorem roundtrip_exact_conv2d (kw : List (String × Val)) (n : Node) (h : construct "Conv2d" kw = .ok n) :
    (toDict n).bind fromDict = .ok n := by
  obtain ⟨hkind, hc, he⟩ := construct_kind "Conv2d" kw n h
  obtain ⟨hnt, _⟩ := construct_conv2d_clean kw n h
  have hidem := construct_idem_conv2d kw n h
  cases n with
  | mk k f i o m c e =>
    simp only [Node.kind, Node.children, Node.edges, Node.fields, Node.metadata] at hkind hc he hnt hidem
    subst hkind hc he
    rw [roundtrip "Conv2d" f i o m (by decide) (by decide) hnt]
    exact hidem

/-- Non-vacuity: a Conv1d with an erased (`None`) input shape — which the file form cannot
carry — goes through the dictionary form and the constructor sees `None` again. -/
example : ∃ d, toDict (Node.mk "Conv1d" [("input_shape", .none), ("weight", .arr DType.float64 [2, 1, 3] [])]
    (typeDict "input" .none) (typeDict "output" .none) (.dict []) [] []) = .ok (.dict d) ∧
    lookup "input_shape" d = some .none := ⟨_, rfl, rfl⟩

end NirVerif.C13
