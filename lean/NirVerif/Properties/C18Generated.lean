import NirVerif.Properties.C18Depth
import NirVerif.Generated.FromDictShape
import NirVerif.Generated.Whitelist

/-! # C18 — the shape of `from_dict`, as the source states it (translator item T20)

`C18.construct_missing` / `construct_extra` / `fromDict_generic` are about a model in which the generic `from_dict` hands
**every** entry of the dictionary to the constructor (so a missing mandatory field and a non-field entry both raise), and in
which only four whitelisted classes treat particular keys before that.  T20 checks on every run that the source has that
shape: the generic classmethod is `assert node["type"] == cls.__name__; del node["type"]; return cls(**node)`, `dict2NIRNode`
is `str2NIRNode(data_dict["type"]).from_dict(data_dict)`, and it regenerates, per overriding class, the keys the override
assigns and deletes — an override that does anything else to the dictionary (`setdefault`, `pop`, filtering unknown
entries, filling defaults) is refused. -/
namespace NirVerif.C18
open NirVerif

/-- the generic path is strict, and among the admitted classes exactly four override it, touching exactly these keys -/
theorem fromDict_generated :
    Generated.genericFromDictStrict = true ∧
    Generated.fromDictOverrides.filter (fun r => Generated.whitelist.contains r.1) =
      [("Flatten", ["input_type"], []), ("NIRGraph", ["nodes", "edges"], []),
       ("Input", ["input_type"], ["shape"]), ("Output", ["output_type"], ["shape"])] := by
  decide +kernel

/-- every other admitted class is read by the generic, strict classmethod -/
theorem generic_classes_generated :
    ∀ c ∈ Generated.whitelist, c ∉ ["Flatten", "NIRGraph", "Input", "Output"] →
      ∀ r ∈ Generated.fromDictOverrides, r.1 ≠ c := by
  decide +kernel

end NirVerif.C18
