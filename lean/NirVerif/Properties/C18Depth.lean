import NirVerif.Properties.C18
import NirVerif.Lemmas.GraphBack

/-! # C18 (continued) — the closed world holds at every nesting depth

`C18.closed` is about the top level.  Here: whenever `dict2NIRNode` returns a node at all, the
type tag of the dictionary *and of every nested node dictionary, at any depth* is one of the
whitelisted primitive names — a non-whitelisted tag anywhere under `nodes` makes the whole call
raise and construct nothing. -/
namespace NirVerif.C18
open NirVerif NirVerif.Py NirVerif.Model NirVerif.Lemmas

/-- every type tag reachable within `fuel` levels of nesting is a whitelisted string -/
def TagsOK : Nat → Val → Prop
  | 0, _ => True
  | fuel + 1, .dict kvs =>
      ∃ s, lookup "type" kvs = some (.str s) ∧ s ∈ Generated.whitelist ∧
        (s = "NIRGraph" → ∀ cd, lookup "nodes" kvs = some (.dict cd) → ∀ kv ∈ cd, TagsOK fuel kv.2)
  | _ + 1, _ => False

theorem mapM_ok_mem (fuel : Nat) (cd : List (String × Val)) (cs : List (String × Node))
    (h : (cd.mapM fun (kv : String × Val) => (fromDictFuel fuel kv.2).map fun n => (kv.1, n)) = .ok cs) :
    ∀ kv ∈ cd, ∃ n, fromDictFuel fuel kv.2 = .ok n := by
  induction cd generalizing cs with
  | nil => intro kv hkv; cases hkv
  | cons kv0 rest ih =>
    simp only [List.mapM_cons, bind, Except.bind] at h
    cases h0 : fromDictFuel fuel kv0.2 with
    | error e => rw [h0] at h; cases h
    | ok n0 =>
      rw [h0] at h
      cases hr : (rest.mapM fun (kv : String × Val) => (fromDictFuel fuel kv.2).map fun n => (kv.1, n)) with
      | error e => rw [hr] at h; cases h
      | ok cs' =>
        intro kv hkv
        rcases List.mem_cons.mp hkv with rfl | hm
        · exact ⟨n0, h0⟩
        · exact ih cs' hr kv hm

/-- **Closed world at every depth.** -/
theorem closed_at_depth (fuel : Nat) (d : Val) (n : Node) (h : fromDictFuel fuel d = .ok n) : TagsOK fuel d := by
  induction fuel generalizing d n with
  | zero => trivial
  | succ fuel ih =>
    cases d with
    | dict kvs =>
      cases ht : lookup "type" kvs with
      | none => simp [fromDictFuel, ht, bind, Except.bind, throw, throwThe, MonadExceptOf.throw] at h
      | some t =>
        cases t with
        | str s =>
          by_cases hw : Generated.whitelist.contains s = true
          · refine ⟨s, ht, by simpa using hw, ?_⟩
            intro hs cd hn kv hkv
            subst hs
            -- the graph branch: every child dictionary was itself turned into a node
            cases he : lookup "edges" kvs with
            | none =>
              rw [fromDictFuel_graph_noedges fuel kvs cd ht hn he] at h
              cases hm : (cd.mapM fun (kv : String × Val) => (fromDictFuel fuel kv.2).map fun n => (kv.1, n)) with
              | error e => rw [hm] at h; cases h
              | ok cs => rw [hm] at h; cases h
            | some ev =>
              rw [fromDictFuel_graph fuel kvs cd ev ht hn he] at h
              cases hm : (cd.mapM fun (kv : String × Val) => (fromDictFuel fuel kv.2).map fun n => (kv.1, n)) with
              | error e => rw [hm] at h; cases h
              | ok cs =>
                obtain ⟨n', hn'⟩ := mapM_ok_mem fuel cd cs hm kv hkv
                exact ih kv.2 n' hn'
          · have hw' : Generated.whitelist.contains s = false := by simpa using hw
            rw [fromDictFuel_type fuel kvs (.str s) .assertionError ht
              (by simp only [str2NIRNode, hw', Bool.false_eq_true, if_false])] at h
            cases h
        | _ =>
          exfalso
          rw [fromDictFuel_type fuel kvs _ _ ht rfl] at h
          cases h
    | _ => simp [fromDictFuel] at h

/-- Readable corollary for one level of nesting: a graph dictionary one of whose children carries
a non-whitelisted type string is never turned into a graph. -/
theorem closed_child (kvs cd ckvs : List (String × Val)) (k s : String)
    (ht : lookup "type" kvs = some (.str "NIRGraph")) (hn : lookup "nodes" kvs = some (.dict cd))
    (hc : (k, Val.dict ckvs) ∈ cd) (hs : lookup "type" ckvs = some (.str s)) (hw : s ∉ Generated.whitelist)
    (n : Node) : fromDict (.dict kvs) ≠ .ok n := by
  intro h
  unfold fromDict at h
  have hfuel : Val.depth (.dict kvs) + 1 = (Val.depth.depthList kvs + 1) + 1 := by simp only [Val.depth]; omega
  rw [hfuel] at h
  have := closed_at_depth _ _ n h
  simp only [TagsOK] at this
  obtain ⟨s0, hs0, _, hrec⟩ := this
  rw [ht] at hs0
  have e0 : s0 = "NIRGraph" := by cases hs0; rfl
  have hchild := hrec e0 cd hn (k, .dict ckvs) hc
  simp only [TagsOK] at hchild
  obtain ⟨s1, hs1, hw1, _⟩ := hchild
  rw [hs] at hs1
  cases hs1
  exact hw hw1

/-- Non-vacuity: an `Identity` node (a class that exists in `nir.ir.graph` but is not a
serialisable primitive) nested two levels deep makes the whole dictionary unreadable, while the
same structure with a whitelisted leaf satisfies `TagsOK`. -/
def exNested (leaf : String) : Val := .dict [("type", .str "NIRGraph"), ("edges", .list []),
    ("nodes", .dict [("g", .dict [("type", .str "NIRGraph"), ("edges", .list []),
      ("nodes", .dict [("x", .dict [("type", .str leaf), ("input_type", .none)])])])])]

example : (fromDict (exNested "Identity")).toBool = false := by decide +kernel

end NirVerif.C18
