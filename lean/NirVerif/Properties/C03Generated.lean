import NirVerif.Properties.C03File
import NirVerif.Generated.WriteShape

/-! # C03 / C01 (continued) — the shape of `nir.write`, as the source states it now

`Generated.forbiddenInNames`, `metadataKey`, `rootVersionName`, `rootNodeName` are regenerated on every run (translator
item T13) from `nir.write`: the substrings that make a key unwritable, the key whose empty dictionary is skipped, and the
two members the file root gets.  The theorems re-check the model's writer against them. -/
namespace NirVerif.C03
open NirVerif NirVerif.Py NirVerif.Model

theorem write_shape_generated :
    Generated.forbiddenInNames = ["/", "\x00"] ∧ Generated.metadataKey = "metadata" ∧
    Generated.rootVersionName = "version" ∧ Generated.rootNodeName = "node" := by
  decide +kernel

/-- the model refuses exactly the keys that contain one of the characters the source refuses -/
theorem badName_generated (k : String) :
    badName k = Generated.forbiddenInNames.any (fun s => s.toList.any (fun c => k.toList.contains c)) := by
  rw [write_shape_generated.1]
  simp [badName, List.any]

/-- the file root holds exactly the two members the source creates, under the names the source gives them -/
theorem root_generated (version : String) (g : Node) (f : H5) (h : write version g = .ok f) :
    ∃ node, f = .group [(Generated.rootNodeName, .group node), (Generated.rootVersionName, .dset (.str version))] := by
  obtain ⟨⟨node, hf⟩, _⟩ := root version g f h
  exact ⟨node, by rw [write_shape_generated.2.2.1, write_shape_generated.2.2.2]; exact hf⟩

end NirVerif.C03
