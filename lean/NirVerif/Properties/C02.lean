import NirVerif.Lemmas.FileForm

/-! # C02 — tensor parameters survive serialisation bit-for-bit

About the NIR side of the pipeline: `asdict` copies without conversion (`toDict`), the ndarray
branch of the writer passes the array's own dtype (`h5Create (.arr …)`), the reader returns
`item[()]` unchanged (`h5Load`).  That h5py/libhdf5 themselves store and return the same bits
for every dtype is part of the *contract model* (trusted base), validated on every run by the
`bits` correspondence/oracle suite over 14 dtypes × rank 0..5 × layouts × special bit
patterns.  Memory layout does not exist in the model (`Val.arr` is the C-order byte string
that `tobytes()` observes), so it is inert by construction. -/
namespace NirVerif.C02
open NirVerif NirVerif.Py NirVerif.Model NirVerif.Lemmas

/-- what `np.asarray(field).dtype / .shape / .tobytes()` observes -/
def arrayView : Val → Option (DType × List Nat × Bytes)
  | .arr dt sh d => some (dt, sh, d)
  | .npscalar dt d => some (dt, [], d)
  | _ => none

/-- dtypes h5py stores natively (everything numeric; not object / unicode arrays) -/
def storable (dt : DType) : Prop := dt.kind ≠ .object ∧ dt.kind ≠ .unicodeU

/-- **Dataset level**: identical dtype, shape and bytes — every storable dtype, every rank
(0 included), every shape (zero-length axes included), every bit pattern (the bytes are
opaque to the model: NaN payloads, signed zeros, subnormals are just bytes).  numpy scalars
being native-endian, rank 0 is claimed for little-endian dtypes. -/
theorem array_bits (dt : DType) (sh : List Nat) (d : Bytes) (hdt : storable dt)
    (hle : sh = [] → dt.big = false) :
    (h5Create (.arr dt sh d)).map (fun ds => arrayView (h5Load ds)) = some (some (dt, sh, d)) := by
  obtain ⟨h1, h2⟩ := hdt
  have hc : h5Create (.arr dt sh d) = some (.num dt sh d) := by
    unfold h5Create; split <;> simp_all
  rw [hc]
  cases sh with
  | nil => simp [h5Load, hle rfl, arrayView]
  | cons n rest => simp [h5Load, arrayView]

/-- numpy scalars (what a rank-0 parameter is after one round trip) keep dtype and bytes too,
so a second round trip changes nothing either -/
theorem scalar_bits (dt : DType) (d : Bytes) (hle : dt.big = false) :
    (h5Create (.npscalar dt d)).map (fun ds => arrayView (h5Load ds)) = some (some (dt, [], d)) := by
  simp [h5Create, scalarItem, h5Load, hle, arrayView]

/-- **Any field of any node at any depth**: an array found at a path of keys in the dictionary
form of a graph is found, with identical dtype / shape / bytes, at the same path in the
dictionary the reader hands to the constructors. -/
theorem param_roundtrip (path : List String) (fuel : Nat) (kvs : List (String × Val)) (items : List (String × H5))
    (h : writeRecursiveFuel fuel kvs [] = .ok items) (hne : path ≠ []) (hlast : path.getLast? ≠ some "metadata")
    (dt : DType) (sh : List Nat) (d : Bytes) (hdt : storable dt) (hle : sh = [] → dt.big = false)
    (hp : getPath (.dict kvs) path = some (.arr dt sh d)) :
    ∃ v', getPath (hdf2dict (.group items)) path = some v' ∧ arrayView v' = some (dt, sh, d) := by
  obtain ⟨ds, hc, hg⟩ := path_roundtrip path fuel kvs items h hne hlast _ hp (by intro d' hd; cases hd)
  refine ⟨h5Load ds, hg, ?_⟩
  have := array_bits dt sh d hdt hle
  rw [hc] at this
  simpa using this

/-- `to_dict` hands every field of a leaf node to the writer unconverted -/
theorem toDict_field (kind : String) (fields : List (String × Val)) (it ot md : Val) (k : String) (v : Val)
    (hk : kind ≠ "NIRGraph" ∧ kind ≠ "Input" ∧ kind ≠ "Output" ∧ kind ≠ "Flatten")
    (hf : lookup k fields = some v) :
    ∃ d, toDict (Node.mk kind fields it ot md [] []) = .ok (.dict d) ∧ lookup k d = some v := by
  obtain ⟨h1, h2, h3, h4⟩ := hk
  refine ⟨fields ++ [("metadata", md), ("type", .str kind)], ?_, ?_⟩
  · unfold toDict; split <;> first | rfl | simp_all
  · induction fields with
    | nil => simp [lookup] at hf
    | cons kv rest ih =>
      obtain ⟨k0, v0⟩ := kv
      simp only [List.cons_append, lookup] at hf ⊢
      split
      · rename_i hh; simp [hh] at hf; exact congrArg some hf
      · rename_i hh; simp [hh] at hf; exact ih hf

/-- Non-vacuity: a float32 matrix holding a signalling-NaN pattern, −0.0 and a subnormal. -/
example : (h5Create (.arr { kind := .float, size := 4 } [1, 3] [1, 0, 0x80, 0x7f, 0, 0, 0, 0x80, 1, 0, 0, 0])).map
    (fun ds => arrayView (h5Load ds))
    = some (some ({ kind := .float, size := 4 }, [1, 3], [1, 0, 0x80, 0x7f, 0, 0, 0, 0x80, 1, 0, 0, 0])) :=
  array_bits _ _ _ ⟨by decide, by decide⟩ (by intro h; cases h)

end NirVerif.C02
