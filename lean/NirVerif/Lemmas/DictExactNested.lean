import NirVerif.Lemmas.DictExact

/-! # Exact dictionary round trip at every nesting depth

`DictExactN n`: `from_dict(to_dict(n))` is `n` whenever the recursion of `dict2NIRNode` is given at least the nesting
depth of the dictionary (which `nir.dict2NIRNode` always has).  Leaves that are `DictExact` are `DictExactN`; a graph
whose children are `DictExactN` is `DictExactN`; hence every tree of such graphs. -/
namespace NirVerif.Lemmas
open NirVerif NirVerif.Py NirVerif.Model

def DictExactN (n : Node) : Prop :=
  ∃ d, toDict n = .ok d ∧ ∀ fuel, Val.depth d ≤ fuel → fromDictFuel (fuel + 1) d = .ok n

theorem DictExact.toN {n : Node} (h : DictExact n) : DictExactN n := by
  obtain ⟨d, hd, hf⟩ := h
  exact ⟨d, hd, fun fuel _ => hf fuel⟩

theorem depthList_le_of_lookup (k : String) (v : Val) (d : List (String × Val)) (h : lookup k d = some v) :
    Val.depth v ≤ Val.depth.depthList d := by
  induction d with
  | nil => simp [lookup] at h
  | cons kv rest ih =>
    obtain ⟨k0, v0⟩ := kv
    simp only [lookup] at h
    simp only [Val.depth.depthList]
    split at h
    · cases h; omega
    · have := ih h; omega

theorem depthList_le_of_mem (k : String) (v : Val) (d : List (String × Val)) (h : (k, v) ∈ d) :
    Val.depth v ≤ Val.depth.depthList d := by
  induction d with
  | nil => cases h
  | cons kv rest ih =>
    obtain ⟨k0, v0⟩ := kv
    simp only [Val.depth.depthList]
    rcases List.mem_cons.mp h with h1 | h1
    · cases h1; omega
    · have := ih h1; omega

/-- the children of a graph, to dictionaries and back, at any fuel that covers the deepest child -/
theorem children_dict_exactN (children : List (String × Node)) (h : ∀ kn ∈ children, DictExactN kn.2) :
    ∃ kids, toDict.toDictChildren children = .ok kids ∧
      ∀ fuel, Val.depth.depthList kids ≤ fuel →
        (kids.mapM fun (kv : String × Val) => (fromDictFuel (fuel + 1) kv.2).map fun n => (kv.1, n)) = .ok children := by
  induction children with
  | nil => exact ⟨[], rfl, fun _ _ => rfl⟩
  | cons kn rest ih =>
    obtain ⟨k0, n0⟩ := kn
    obtain ⟨d0, hd0, hf0⟩ := h (k0, n0) List.mem_cons_self
    obtain ⟨kids, hk, hm⟩ := ih (fun kn hkn => h kn (List.mem_cons_of_mem _ hkn))
    refine ⟨(k0, d0) :: kids, ?_, ?_⟩
    · simp only [toDict.toDictChildren, hd0, hk, bind, Except.bind, pure, Except.pure]
    · intro fuel hfuel
      simp only [Val.depth.depthList] at hfuel
      have h1 := hf0 fuel (by omega)
      have h2 := hm fuel (by omega)
      simp only at h1
      simp only [List.mapM_cons, bind, Except.bind, pure, Except.pure]
      rw [h1, h2]
      rfl

/-- **A graph whose children round-trip exactly (at their depth) round-trips exactly (at its depth).** -/
theorem graph_dict_exactN (children : List (String × Node)) (edges : List Edge) (md : Val)
    (hkeys : (children.map Prod.fst).Nodup) (h : ∀ kn ∈ children, DictExactN kn.2) :
    DictExactN (mkGraph children edges md) := by
  obtain ⟨kids, hk, hm⟩ := children_dict_exactN children h
  have htd : toDict (mkGraph children edges md) =
      .ok (.dict [("nodes", .dict kids), ("edges", edgesVal edges), ("metadata", md), ("type", .str "NIRGraph")]) := by
    simp only [mkGraph, toDict, hk, bind, Except.bind, pure, Except.pure]
  refine ⟨_, htd, ?_⟩
  intro fuel hfuel
  generalize hD : [("nodes", Val.dict kids), ("edges", edgesVal edges), ("metadata", md), ("type", Val.str "NIRGraph")] = D at hfuel
  have ht : lookup "type" D = some (.str "NIRGraph") := by rw [← hD]; rfl
  have hn : lookup "nodes" D = some (.dict kids) := by rw [← hD]; rfl
  have he : lookup "edges" D = some (edgesVal edges) := by rw [← hD]; rfl
  rw [fromDictFuel_graph _ D kids (edgesVal edges) ht hn he]
  -- the fuel left for the children covers the deepest of them
  have hdep : Val.depth.depthList kids + 2 ≤ fuel := by
    have h1 := depthList_le_of_lookup "nodes" (.dict kids) D hn
    simp only [Val.depth] at h1 hfuel
    omega
  obtain ⟨f', rfl⟩ : ∃ f', fuel = f' + 1 := ⟨fuel - 1, by omega⟩
  rw [hm f' (by omega), decodeEdges_edgesVal]
  simp only [Except.bind]
  have hb : bindKwargs graphSpec (Py.insert "edges" Val.none (Py.insert "nodes" Val.none (erase "type" D))) =
      .ok [("nodes", Val.none), ("edges", Val.none), ("input_type", Val.none), ("output_type", Val.none), ("metadata", md)] := by
    rw [← hD]; rfl
  rw [hb]
  simp only [lookup, String.reduceBEq, Bool.false_eq_true, if_false, beq_self_eq_true, if_true, Option.getD_some]
  rw [insertAll_nil children hkeys]

/-- trees of graphs over exactly round-tripping leaves -/
inductive ExactTree : Node → Prop
  | leaf (n : Node) (h : DictExact n) : ExactTree n
  | graph (children : List (String × Node)) (edges : List Edge) (md : Val)
      (hkeys : (children.map Prod.fst).Nodup) (h : ∀ kn ∈ children, ExactTree kn.2) :
      ExactTree (mkGraph children edges md)

theorem ExactTree.exactN {n : Node} (h : ExactTree n) : DictExactN n := by
  induction h with
  | leaf n h => exact h.toN
  | graph children edges md hkeys _ ih => exact graph_dict_exactN children edges md hkeys ih

/-- **`from_dict(to_dict(g)) = g` for graphs nested to any depth.** -/
theorem nested_dict_exact {n : Node} (h : ExactTree n) : (toDict n).bind fromDict = .ok n := by
  obtain ⟨d, hd, hf⟩ := h.exactN
  rw [hd]
  simp only [Except.bind, fromDict]
  exact hf _ (Nat.le_refl _)

end NirVerif.Lemmas
