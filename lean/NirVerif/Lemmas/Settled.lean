import NirVerif.Lemmas.ConvReading
/-
  After a successful loop body an Output node's output type is the renamed copy of its input
  type; together with the key-aware typing this makes every edge of an inferred consistent
  graph a *fixed point* of the loop body — a second inference changes nothing.
-/
namespace NirVerif.Lemmas
open NirVerif NirVerif.Py NirVerif.Model

/-- an Output node's output type is exactly `{k.replace("input","output"): v}` of its input type -/
def Mirrors (n : Node) : Prop :=
  n.kind = "Output" → renameKeys "input" "output" n.inputType = .ok n.outputType

theorem stepNode_mirrors (pre post : Node) (hok : (stepNode pre post).2 = none) : Mirrors (stepNode pre post).1 := by
  intro hkind
  have hk0 : post.kind = "Output" := by rw [← (stepNode_frame pre post).1]; exact hkind
  cases post with
  | mk k f i o m c e =>
  simp only [Node.kind] at hk0
  subst hk0
  unfold stepNode at hok ⊢
  cases h1 : inferInput pre (Node.mk "Output" f i o m c e) with
  | error err => rw [h1] at hok; simp at hok
  | ok post1 =>
    obtain ⟨t1, rfl⟩ := inferInput_form _ _ _ h1
    rw [h1] at hok
    simp only [Node.setInputType, Node.setTypes, Node.outputType] at hok ⊢
    cases hr : renameKeys "input" "output" t1 with
    | error err =>
      simp [mirrorOutput, Node.isKind, Node.kind, Node.inputType, hr, bind, Except.bind] at hok
    | ok t2 =>
      have e1 : ("Output" == "Conv1d" || "Output" == "Conv2d") = false := by decide
      have e2 : ("Output" == "SumPool2d" || "Output" == "AvgPool2d") = false := by decide
      have e3 : ("Output" == "Flatten") = false := by decide
      simp only [mirrorOutput, Node.isKind, Node.kind, Node.inputType, hr, bind, Except.bind, pure, Except.pure,
        beq_self_eq_true, if_true, Node.setOutputType, Node.setTypes, inferOutput, Node.outputType, e1, e2, e3,
        Bool.false_eq_true, if_false]
      by_cases hund : typeUndefined t2 = true
      · simp [hund, Node.inputType, Node.outputType, hr]
      · have hund' : typeUndefined t2 = false := by simpa using hund
        simp [hund', Node.inputType, Node.outputType, hr]

/-- a typed predecessor and a typed successor (an Output mirroring its input) joined by a
consistent edge: the loop body is the identity on the successor -/
theorem stepNode_settled (pre post : Node) (a : List Int) (s t2 : List Int)
    (hpre : HasTypesK pre (a, s)) (hpost : HasTypesK post (s, t2)) (hm : Mirrors post) :
    stepNode pre post = (post, none) := by
  obtain ⟨_, ⟨vo, hpo, hso, _⟩⟩ := hpre
  obtain ⟨⟨vi, hpi, hsi, _⟩, ⟨w, hpw, hsw, _⟩⟩ := hpost
  simp only at hso hsi hsw
  have hco := shapeContent_of_some vo s hso
  have hci := shapeContent_of_some vi s hsi
  have hni : isNoneVal vi = false := isNoneVal_of_shape vi s hsi
  have hnw : isNoneVal w = false := isNoneVal_of_shape w t2 hsw
  cases pre with
  | mk pk pf pi po pm pc pe =>
  cases post with
  | mk k f i o m c e =>
  simp only [Node.outputType, Node.inputType] at hpo hpi hpw
  subst hpo hpi hpw
  have h1 : inferInput (Node.mk pk pf pi (typeDict "output" vo) pm pc pe)
      (Node.mk k f (typeDict "input" vi) (typeDict "output" w) m c e) =
      .ok (Node.mk k f (typeDict "input" vi) (typeDict "output" w) m c e) := by
    simp [inferInput, needsInput, Node.outputType, Node.inputType, typeDict, typeLen, singleValue, shapeEq, hco, hci,
      typeUndefined_single, hni, bind, Except.bind, pure, Except.pure]
  simp only [typeDict] at h1
  by_cases hk : k = "Output"
  · subst hk
    have hmm := hm rfl
    simp only [Node.inputType, Node.outputType, typeDict] at hmm
    simp [stepNode, h1, mirrorOutput, Node.isKind, Node.kind, Node.inputType, hmm, Node.setOutputType, Node.setTypes,
      inferOutput, Node.outputType, typeDict, typeUndefined_single, hnw, bind, Except.bind, pure, Except.pure]
  · have hk' : (k == "Output") = false := by simpa using hk
    simp [stepNode, h1, mirrorOutput, Node.isKind, Node.kind, hk', inferOutput, Node.outputType, typeDict,
      typeUndefined_single, hnw, pure, Except.pure]

/-- typing + mirroring: what every node of an inferred consistent graph satisfies -/
def HasTypesM (n : Node) (t : List Int × List Int) : Prop := HasTypesK n t ∧ Mirrors n

end NirVerif.Lemmas
