import NirVerif.Lemmas.Inference
import NirVerif.Lemmas.Typing
namespace NirVerif.Lemmas
open NirVerif NirVerif.Py NirVerif.Model

/-- every edge joins two existing leaf nodes -/
def FlatEdges (g : Node) : Prop :=
  ∀ e ∈ g.edges, ∃ a b, lookup e.1 g.children = some a ∧ lookup e.2 g.children = some b ∧
    a.isKind "NIRGraph" = false ∧ b.isKind "NIRGraph" = false

theorem processEdge_succeeds (nodes : Nodes) (pre post : String) (preN postN : Node)
    (h1 : lookup pre nodes = some preN) (h2 : lookup post nodes = some postN)
    (k1 : preN.isKind "NIRGraph" = false) (k2 : postN.isKind "NIRGraph" = false)
    (hs : (stepNode preN postN).2 = none) :
    (processEdge nodes pre post).2 = none := by
  simp [processEdge, h1, h2, k1, k2, hs]

/-- As `forwardInference_good`, but *deriving* success: if the loop body succeeds and
establishes `Good` on every edge whose source is `Good`, the whole inference succeeds. -/
theorem forwardInference_total (g : Node) (hflat : FlatEdges g) (Good : String → Node → Prop)
    (hinit : ∀ k ∈ initialSeen g.edges ((graphInputs g).map Prod.fst), ∀ n, lookup k g.children = some n → Good k n)
    (hstep : ∀ pre post preN postN, (pre, post) ∈ g.edges → Good pre preN →
      (lookup post g.children = some postN ∨ Good post postN) →
      (stepNode preN postN).2 = none ∧ Good post (stepNode preN postN).1)
    (hkind : ∀ k n, Good k n → n.isKind "NIRGraph" = false) :
    (forwardInference g).2.2 = none := by
  have key := workList_inv2 g.edges processEdge
    (RunInv g ((graphInputs g).map Prod.fst) Good)
    (fun _ _ err => err = none)
    (fun _ _ _ => rfl)
    (fun st pre post hmem rest sn st' e h hs => by
      exfalso
      have hpreSeen : pre ∈ sn := h.srcSeen ⟨(pre, post), hmem⟩ List.mem_cons_self
      obtain ⟨preN, hpre⟩ := Option.isSome_iff_exists.mp (h.present pre hpreSeen)
      have hgoodPre := h.good pre hpreSeen preN hpre
      obtain ⟨a, b, ha, hb, ka, kb⟩ := hflat (pre, post) hmem
      -- the successor exists in the current table too
      have hpostEx : ∃ postN, lookup post st = some postN ∧
          (lookup post g.children = some postN ∨ Good post postN) := by
        by_cases hp : post ∈ sn
        · obtain ⟨postN, hpost⟩ := Option.isSome_iff_exists.mp (h.present post hp)
          exact ⟨postN, hpost, Or.inr (h.good post hp postN hpost)⟩
        · exact ⟨b, by rw [h.untouched post hp]; exact hb, Or.inl hb⟩
      obtain ⟨postN, hpost, hcase⟩ := hpostEx
      have hk2 : postN.isKind "NIRGraph" = false := by
        rcases hcase with hc | hc
        · rw [hb] at hc; cases hc; exact kb
        · exact hkind post postN hc
      have hsucc := processEdge_succeeds st pre post preN postN hpre hpost (hkind pre preN hgoodPre) hk2
        (hstep pre post preN postN hmem hgoodPre hcase).1
      rw [hs] at hsucc; cases hsucc)
    (fun st pre post hmem rest sn st' h hs =>
      runInv_step g _ Good (fun a b c d e f g' h' => (hstep a b c d e f g').2) st st' pre post hmem rest sn h hs)
    g.children (initialStack g.edges _) (initialSeen g.edges _)
    (runInv_init g _ Good (inputs_present g) hinit)
  exact key


theorem shapeContent_none : shapeContent .none = .ok Option.none := rfl

theorem portVal_cases (v : Val) (h : PortVal v) :
    (v = .none ∧ shapeContent v = .ok Option.none) ∨ (∃ s, Spec.shapeOfVal v = some s ∧ shapeContent v = .ok (some s)) := by
  rcases h with rfl | h
  · exact Or.inl ⟨rfl, rfl⟩
  · obtain ⟨s, hs⟩ := Option.isSome_iff_exists.mp h
    exact Or.inr ⟨s, hs, shapeContent_of_some v s hs⟩

theorem typeUndefined_single (k : String) (v : Val) : typeUndefined (.dict [(k, v)]) = isNoneVal v := by
  rw [typeUndefined_dict]; simp

theorem isNoneVal_of_shape (v : Val) (s : List Int) (h : Spec.shapeOfVal v = some s) : isNoneVal v = false := by
  cases v <;> simp_all [isNoneVal, Spec.shapeOfVal]

/-- Step 1 on single-port types: afterwards the successor's input shape is the predecessor's
output shape, and nothing else of the successor changed. -/
theorem inferInput_shape (pre post : Node) (ko ki : String) (vo vi : Val) (s : List Int)
    (hpo : pre.outputType = .dict [(ko, vo)]) (hso : Spec.shapeOfVal vo = some s)
    (hpi : post.inputType = .dict [(ki, vi)]) (hvi : PortVal vi) :
    ∃ t, inferInput pre post = .ok (post.setInputType t) ∧ Spec.portShape t = some s ∧
      (∀ si, Spec.shapeOfVal vi = some si → si = s → t = post.inputType) ∧
      (t = .dict [(pyReplace ko "output" "input", vo)] ∨ t = post.inputType) := by
  have hco := shapeContent_of_some vo s hso
  cases pre with
  | mk pk pf pi po pm pc pe =>
  simp only [Node.outputType] at hpo
  subst hpo
  rcases portVal_cases vi hvi with ⟨rfl, hci⟩ | ⟨si, hsi, hci⟩
  · refine ⟨.dict [(pyReplace ko "output" "input", vo)], ?_, by simp [Spec.portShape, hso], ?_, Or.inl rfl⟩
    · simp [inferInput, needsInput, Node.outputType, hpi, typeLen, singleValue, shapeEq, hco, hci, typeUndefined_single, isNoneVal,
        renameKeys, insertAll, Py.insert, bind, Except.bind, pure, Except.pure]
    · intro si h; simp [Spec.shapeOfVal] at h
  · by_cases heq : si = s
    · subst heq
      refine ⟨post.inputType, ?_, by rw [hpi]; simp [Spec.portShape, hsi], fun _ _ _ => rfl, Or.inr rfl⟩
      have hn : isNoneVal vi = false := isNoneVal_of_shape vi si hsi
      cases post with
      | mk k f i o m c e =>
        simp only [Node.inputType] at hpi
        subst hpi
        simp [inferInput, needsInput, Node.outputType, typeLen, singleValue, shapeEq, hco, hci, typeUndefined_single, hn,
          bind, Except.bind, pure, Except.pure, Node.inputType, Node.outputType, Node.setInputType, Node.setTypes]
    · refine ⟨.dict [(pyReplace ko "output" "input", vo)], ?_, by simp [Spec.portShape, hso], ?_, Or.inl rfl⟩
      · have hne : (some s == some si) = false := by
          have : ¬ s = si := fun e => heq e.symm
          simp [this]
        simp [inferInput, needsInput, Node.outputType, hpi, typeLen, singleValue, shapeEq, hco, hci, typeUndefined_single, hne,
          renameKeys, insertAll, Py.insert, bind, Except.bind, pure, Except.pure]
      · intro si' h1 h2
        rw [hsi] at h1; cases h1; exact absurd h2 heq


/-- one loop body on an **Output** node (shape erased, right or wrong): it ends up with the
predecessor's output shape on both sides -/
theorem stepNode_output (pre post : Node) (ko ki : String) (vo vi : Val) (s : List Int)
    (hk : post.kind = "Output")
    (hpo : pre.outputType = .dict [(ko, vo)]) (hso : Spec.shapeOfVal vo = some s)
    (hpi : post.inputType = .dict [(ki, vi)]) (hvi : PortVal vi) :
    (stepNode pre post).2 = none ∧ Spec.portShape (stepNode pre post).1.inputType = some s ∧
      Spec.portShape (stepNode pre post).1.outputType = some s := by
  obtain ⟨t, h1, hts, _, _⟩ := inferInput_shape pre post ko ki vo vi s hpo hso hpi hvi
  cases post with
  | mk k f i o m c e =>
  simp only [Node.kind] at hk
  subst hk
  -- t is a single-entry dict with a defined shape
  obtain ⟨kt, vt, rfl, hvt⟩ : ∃ kt vt, t = .dict [(kt, vt)] ∧ Spec.shapeOfVal vt = some s := by
    cases t with
    | dict kvs =>
      match kvs, hts with
      | [(a, b)], hts => exact ⟨a, b, rfl, by simpa [Spec.portShape] using hts⟩
    | _ => simp [Spec.portShape] at hts
  have hn : isNoneVal vt = false := isNoneVal_of_shape vt s hvt
  simp [stepNode, h1, mirrorOutput, Node.isKind, Node.kind, Node.setInputType, Node.setTypes, Node.inputType,
    Node.outputType, renameKeys, insertAll, Py.insert, inferOutput, Node.setOutputType, typeUndefined_single, hn,
    Spec.portShape, hvt, bind, Except.bind, pure, Except.pure]

/-- one loop body on a node whose output type is already defined (every annotated primitive):
its input side takes the predecessor's shape, its output type is kept -/
theorem stepNode_annotated (pre post : Node) (ko ki : String) (vo vi : Val) (s : List Int)
    (hk : post.kind ≠ "Output") (hout : typeUndefined post.outputType = false)
    (hpo : pre.outputType = .dict [(ko, vo)]) (hso : Spec.shapeOfVal vo = some s)
    (hpi : post.inputType = .dict [(ki, vi)]) (hvi : PortVal vi) :
    (stepNode pre post).2 = none ∧ Spec.portShape (stepNode pre post).1.inputType = some s ∧
      (stepNode pre post).1.outputType = post.outputType := by
  obtain ⟨t, h1, hts, _, _⟩ := inferInput_shape pre post ko ki vo vi s hpo hso hpi hvi
  cases post with
  | mk k f i o m c e =>
  simp only [Node.kind, Node.outputType] at hk hout
  have hk' : (k == "Output") = false := by simpa using hk
  simp [stepNode, h1, mirrorOutput, Node.isKind, Node.kind, Node.setInputType, Node.setTypes, Node.inputType,
    Node.outputType, inferOutput, hk', hout, hts, pure, Except.pure]

end NirVerif.Lemmas
