import NirVerif.Model.Graph
import NirVerif.Spec.Typing
namespace NirVerif.Lemmas
open NirVerif NirVerif.Py NirVerif.Model

def PortVal (v : Val) : Prop := v = .none ∨ (Spec.shapeOfVal v).isSome

def SinglePort (n : Node) : Prop :=
  n.isKind "NIRGraph" = false ∧ (∃ k v, n.inputType = .dict [(k, v)] ∧ PortVal v)
    ∧ (∃ k v, n.outputType = .dict [(k, v)] ∧ PortVal v)

theorem asInt_eq : Val.asInt? = Spec.intOfVal := by
  funext v
  cases v <;> simp [Val.asInt?, Spec.intOfVal, DType.isInteger]

theorem shapeContent_of_some (v : Val) (s : List Int) (h : Spec.shapeOfVal v = some s) :
    shapeContent v = .ok (some s) := by
  cases v with
  | arr dt sh d =>
    match sh with
    | [n] =>
      simp only [Spec.shapeOfVal, shapeContent, DType.isInteger] at *
      split at h
      · rename_i hk; simp [hk] at *; simp [h]
      · rename_i hk
        simp [hk] at *
        simp [h.1, h.2]
    | [] => simp [Spec.shapeOfVal] at h
    | _ :: _ :: _ => simp [Spec.shapeOfVal] at h
  | tuple xs =>
    simp only [Spec.shapeOfVal, shapeContent] at *
    rw [asInt_eq, h]
  | list xs =>
    simp only [Spec.shapeOfVal, shapeContent] at *
    rw [asInt_eq, h]
  | _ => simp [Spec.shapeOfVal] at h

/-- outcome of checking one edge between two single-port leaf nodes -/
theorem checkEdge_spec (nodes : Nodes) (e : Edge) (a b : Node)
    (ha : lookup e.1 nodes = some a) (hb : lookup e.2 nodes = some b)
    (hsa : SinglePort a) (hsb : SinglePort b) :
    (checkEdge nodes e = .ok () ∧ ∃ s, Spec.portShape a.outputType = some s ∧ Spec.portShape b.inputType = some s)
    ∨ (checkEdge nodes e = .error .valueError ∧
        ¬ ∃ s, Spec.portShape a.outputType = some s ∧ Spec.portShape b.inputType = some s) := by
  obtain ⟨hka, -, ko, vo, hout, hpo⟩ := hsa
  obtain ⟨hkb, ⟨ki, vi, hin, hpi⟩, -⟩ := hsb
  unfold checkEdge
  simp only [ha, hb, hka, hkb, hout, hin, Spec.portShape, Bool.or_self, Bool.false_eq_true, if_false]
  rcases hpo with rfl | hpo
  · right; simp [typeUndefined, Spec.shapeOfVal]
  · obtain ⟨so, hso⟩ := Option.isSome_iff_exists.mp hpo
    have huo : typeUndefined (.dict [(ko, vo)]) = false := by
      cases vo <;> simp_all [typeUndefined, Spec.shapeOfVal]
    rcases hpi with rfl | hpi
    · right; simp [typeUndefined, Spec.shapeOfVal]
    · obtain ⟨si, hsi⟩ := Option.isSome_iff_exists.mp hpi
      have hui : typeUndefined (.dict [(ki, vi)]) = false := by
        cases vi <;> simp_all [typeUndefined, Spec.shapeOfVal]
      simp only [huo, hui, Bool.false_eq_true, if_false, typeLen, List.length_singleton, bne_self_eq_false,
        beq_self_eq_true, if_true, singleValue, shapeEq, shapeContent_of_some _ _ hso,
        shapeContent_of_some _ _ hsi, bind, Except.bind, pure, Except.pure]
      by_cases heq : si = so
      · left; subst heq; simp [hso, hsi]
      · right
        have : (some si == some so) = false := by simp [heq]
        simp [this, hso, hsi]
        intro h; exact heq h


theorem forEachEdge_ok (f : Edge → Except PyErr Unit) (l : List Edge) :
    (forEachEdge f l = .ok () ↔ ∀ x ∈ l, f x = .ok ()) := by
  induction l with
  | nil => simp [forEachEdge]
  | cons x xs ih =>
    simp only [forEachEdge, List.mem_cons, forall_eq_or_imp]
    cases hx : f x with
    | error e => simp
    | ok u => cases u; simpa using ih

theorem forEachEdge_err (f : Edge → Except PyErr Unit) (l : List Edge) (e0 : PyErr)
    (h : ∀ x ∈ l, f x = .ok () ∨ f x = .error e0) :
    forEachEdge f l = .ok () ∨ forEachEdge f l = .error e0 := by
  induction l with
  | nil => left; rfl
  | cons x xs ih =>
    simp only [forEachEdge]
    rcases h x (List.mem_cons_self) with hx | hx
    · rw [hx]
      exact ih (fun y hy => h y (List.mem_cons_of_mem _ hy))
    · right; rw [hx]

end NirVerif.Lemmas
