import NirVerif.Lemmas.RestoreKeyed
import NirVerif.Lemmas.Dict
/-
  `calculate_conv_output` sees its `input_shape` argument only through `len()` and
  `_index_tuple`: any two values with the same integer reading give the same result.
-/
namespace NirVerif.Lemmas
open NirVerif NirVerif.Py NirVerif.Model

/-- `v` is a non-scalar container that reads as the integers `xs` -/
structure IntReading (v : Val) (xs : List Int) : Prop where
  notInt : Val.asInt? v = none
  len : Val.len? v = some xs.length
  index : ∀ i (h : i < xs.length), indexTuple v i = .ok (.int xs[i])

theorem mapM_congr_range {ε α : Type} (f g : Nat → Except ε α) (l : List Nat) (h : ∀ i ∈ l, f i = g i) :
    l.mapM f = l.mapM g := by
  induction l with
  | nil => rfl
  | cons a as ih =>
    simp only [List.mapM_cons]
    rw [h a (List.mem_cons_self), ih (fun i hi => h i (List.mem_cons_of_mem _ hi))]

theorem convAxisVal_congr (v w p d k s : Val) (i : Nat) (h : indexTuple v i = indexTuple w i) :
    convAxisVal v p d k s i = convAxisVal w p d k s i := by
  simp only [convAxisVal, h]

theorem calculateConvOutput_reading (v w : Val) (xs : List Int) (hv : IntReading v xs) (hw : IntReading w xs)
    (p d k s : Val) : calculateConvOutput v p d k s = calculateConvOutput w p d k s := by
  simp only [calculateConvOutput, hv.notInt, hw.notInt, hv.len, hw.len]
  simp only [bind, Except.bind, pure, Except.pure]
  apply mapM_congr_range
  intro i hi
  have hi' : i < xs.length := by simpa using hi
  exact convAxisVal_congr _ _ _ _ _ _ i (by rw [hv.index i hi', hw.index i hi'])

theorem mapM_some_length {α β : Type} (f : α → Option β) (l : List α) (r : List β) (h : l.mapM f = some r) :
    r.length = l.length := by
  induction l generalizing r with
  | nil => simp at h; subst h; rfl
  | cons a as ih =>
    simp only [List.mapM_cons, Option.bind_eq_bind] at h
    cases ha : f a with
    | none => simp [ha] at h
    | some b =>
      cases hr : as.mapM f with
      | none => simp [ha, hr] at h
      | some bs =>
        simp [ha, hr] at h
        subst h
        simp [ih bs hr]

theorem mapM_some_index {α β : Type} (f : α → Option β) (l : List α) (r : List β) (h : l.mapM f = some r)
    (i : Nat) (hi : i < r.length) : ∃ a, l[i]? = some a ∧ f a = some r[i] := by
  induction l generalizing r i with
  | nil => simp at h; subst h; simp at hi
  | cons a as ih =>
    simp only [List.mapM_cons, Option.bind_eq_bind] at h
    cases ha : f a with
    | none => simp [ha] at h
    | some b =>
      cases hr : as.mapM f with
      | none => simp [ha, hr] at h
      | some bs =>
        simp [ha, hr] at h
        subst h
        cases i with
        | zero => exact ⟨a, rfl, by simpa using ha⟩
        | succ j =>
          obtain ⟨x, hx, hfx⟩ := ih bs hr j (by simpa using hi)
          exact ⟨x, by simpa using hx, by simpa using hfx⟩

/-- a tuple of Python / numpy integers reads as those integers -/
theorem reading_tuple (ys : List Val) (xs : List Int) (h : ys.mapM Val.asInt? = some xs) :
    IntReading (.tuple ys) xs where
  notInt := rfl
  len := by simp [Val.len?, mapM_some_length _ _ _ h]
  index := by
    intro i hi
    obtain ⟨a, ha, hfa⟩ := mapM_some_index _ _ _ h i hi
    simp [indexTuple, ha, hfa]

theorem mapM_asInt_ints (xs : List Int) : (xs.map Val.int).mapM Val.asInt? = some xs := by
  induction xs with
  | nil => rfl
  | cons a as ih => simp [List.mapM_cons, Val.asInt?, ih]

theorem mapM_asInt_npscalars (dt : DType) (hint : dt.isInteger = true) (bs : List Bytes) :
    (bs.map (Val.npscalar dt)).mapM Val.asInt? = some (bs.map (decodeInt dt)) := by
  induction bs with
  | nil => rfl
  | cons a as ih => simp [List.mapM_cons, Val.asInt?, hint, ih]

/-- an element taken out of an integer array reads as the integer the array holds there, whatever the byte order -/
theorem asInt_nativeScalar (dt : DType) (hint : dt.isInteger = true) (b : Bytes) :
    Val.asInt? (nativeScalar dt b) = some (decodeInt dt b) := by
  have h2 : ({ dt with big := false } : DType).isInteger = true := by simpa [DType.isInteger] using hint
  simp only [nativeScalar, Val.asInt?, h2, if_true]
  cases hb : dt.big <;> simp [decodeInt, hb]

theorem mapM_asInt_natives (dt : DType) (hint : dt.isInteger = true) (bs : List Bytes) :
    (bs.map (nativeScalar dt)).mapM Val.asInt? = some (bs.map (decodeInt dt)) := by
  induction bs with
  | nil => rfl
  | cons a as ih => simp [List.mapM_cons, asInt_nativeScalar dt hint, ih]

/-- `tuple(v[1:])` of a shape value `[c, *spatial]` reads as `spatial` -/
theorem tupleOfTail_reading (v : Val) (c : Int) (spatial : List Int) (h : Spec.shapeOfVal v = some (c :: spatial)) :
    ∃ ys, tupleOfTail v = .ok (.tuple ys) ∧ ys.mapM Val.asInt? = some spatial := by
  cases v with
  | arr dt sh d =>
    match sh, h with
    | [n], h =>
      simp only [Spec.shapeOfVal] at h
      split at h
      · rename_i hk
        have hint : dt.isInteger = true := by simpa [DType.isInteger] using hk
        simp only [Option.some.injEq, decodeInts] at h
        cases hc : chunks dt.size d with
        | nil => rw [hc] at h; simp at h
        | cons b rest =>
          rw [hc] at h
          simp only [List.map_cons, List.cons.injEq] at h
          refine ⟨rest.map (nativeScalar dt), by simp [tupleOfTail, hc], ?_⟩
          rw [mapM_asInt_natives dt hint, h.2]
      · split at h <;> simp at h
  | tuple xs =>
    simp only [Spec.shapeOfVal] at h
    rw [← asInt_eq] at h
    cases xs with
    | nil => simp at h
    | cons x xs' =>
      simp only [List.mapM_cons, Option.bind_eq_bind] at h
      cases hx : Val.asInt? x with
      | none => simp [hx] at h
      | some b =>
        cases hr : xs'.mapM Val.asInt? with
        | none => simp [hx, hr] at h
        | some bs =>
          simp [hx, hr] at h
          exact ⟨xs', by simp [tupleOfTail], by rw [hr, h.2]⟩
  | list xs =>
    simp only [Spec.shapeOfVal] at h
    rw [← asInt_eq] at h
    cases xs with
    | nil => simp at h
    | cons x xs' =>
      simp only [List.mapM_cons, Option.bind_eq_bind] at h
      cases hx : Val.asInt? x with
      | none => simp [hx] at h
      | some b =>
        cases hr : xs'.mapM Val.asInt? with
        | none => simp [hx, hr] at h
        | some bs =>
          simp [hx, hr] at h
          exact ⟨xs', by simp [tupleOfTail], by rw [hr, h.2]⟩
  | _ => simp [Spec.shapeOfVal] at h

/-- the kernel tuple `weight.shape[2:]` -/
def kernelOf (wsh : List Nat) : Val := .tuple ((wsh.drop 2).map fun k => Val.int (Int.ofNat k))

/-- one loop body on an erased **Conv2d** node: `input_shape` is filled in from the restored
input type and the output type recomputed by `calculate_conv_output` -/
theorem stepNode_conv2d (pre post : Node) (vo vi w : Val) (c : Int) (spatial outs : List Int) (wsh : List Nat)
    (hk : post.kind = "Conv2d") (hout : post.outputType = typeDict "output" .none)
    (hw : post.field? "weight" = some w) (hwsh : getShape w = .ok wsh) (hrank : 1 ≤ wsh.length)
    (hpo : pre.outputType = typeDict "output" vo) (hso : Spec.shapeOfVal vo = some (c :: spatial))
    (hpi : post.inputType = typeDict "input" vi) (hvi : PortVal vi) (hwo : WFShape vo) (hwi : WFShape vi)
    (hcalc : calculateConvOutput (.tuple (spatial.map Val.int)) ((post.field? "padding").getD .none)
      ((post.field? "dilation").getD .none) (kernelOf wsh) ((post.field? "stride").getD .none) = .ok outs)
    (hfit : FitsI64 (Int.ofNat (wsh.getD 0 0) :: outs)) :
    (stepNode pre post).2 = none ∧
      HasTypesK (stepNode pre post).1 (c :: spatial, Int.ofNat (wsh.getD 0 0) :: outs) := by
  obtain ⟨v, h1, hv, hwv⟩ := inferInput_keyed pre post vo vi _ hpo hso hpi hvi hwo hwi
  have hwsa := wf_shapeArray (Int.ofNat (wsh[0]?.getD 0) :: outs)
  obtain ⟨ys, hys, hread⟩ := tupleOfTail_reading v c spatial hv
  have hcong := calculateConvOutput_reading (.tuple ys) (.tuple (spatial.map Val.int)) spatial
    (reading_tuple ys spatial hread) (reading_tuple _ spatial (mapM_asInt_ints spatial))
  have hsa := shapeOfVal_shapeArray _ hfit
  cases post with
  | mk k f i o m cc e =>
  simp only [Node.kind, Node.outputType, Node.field?, Node.fields] at hk hout hw hcalc
  subst hk hout
  simp only [typeDict] at h1
  have hlw : lookup "weight" (Py.insert "input_shape" (Val.tuple ys) f) = some w := by
    rw [lookup_insert_ne _ _ _ _ (by decide)]; exact hw
  have hlp : lookup "padding" (Py.insert "input_shape" (Val.tuple ys) f) = lookup "padding" f :=
    lookup_insert_ne _ _ _ _ (by decide)
  have hld : lookup "dilation" (Py.insert "input_shape" (Val.tuple ys) f) = lookup "dilation" f :=
    lookup_insert_ne _ _ _ _ (by decide)
  have hls : lookup "stride" (Py.insert "input_shape" (Val.tuple ys) f) = lookup "stride" f :=
    lookup_insert_ne _ _ _ _ (by decide)
  have hlen : ¬ wsh.length < 1 := by omega
  have hcalc' := hcong ((lookup "padding" f).getD .none) ((lookup "dilation" f).getD .none) (kernelOf wsh)
    ((lookup "stride" f).getD .none)
  rw [hcalc] at hcalc'
  simp only [kernelOf, ← List.map_drop] at hcalc'
  rw [List.map_drop] at hcalc'
  have hsa' : Spec.shapeOfVal (shapeArray (Int.ofNat (wsh[0]?.getD 0) :: outs)) = some (Int.ofNat (wsh[0]?.getD 0) :: outs) := by
    simpa using hsa
  simp only [Int.ofNat_eq_natCast] at hcalc' hsa' hwsa
  simp [stepNode, h1, mirrorOutput, Node.isKind, Node.kind, Node.setInputType, Node.setTypes, Node.inputType,
    Node.outputType, inferOutput, typeDict, typeUndefined_single, isNoneVal, inferConv, convInputShape, getItem,
    Py.lookup, hys, convOutputType, Node.setField, Node.field?, Node.fields, hlw, hlp, hld, hls, hwsh, hlen, hcalc',
    Node.setOutputType, HasTypesK, hv, hsa', hwv, hwsa, bind, Except.bind, pure, Except.pure]

/-! ### Conv1d: the input shape is a single integer -/

theorem indexTuple_scalar (x : Val) (k : Int) (h : Val.asInt? x = some k) (i : Nat) :
    indexTuple x i = .ok (.int k) := by
  cases x <;> simp [Val.asInt?] at h <;> simp_all [indexTuple]

theorem calculateConvOutput_scalar (x y : Val) (k : Int) (hx : Val.asInt? x = some k) (hy : Val.asInt? y = some k)
    (p d kk s : Val) : calculateConvOutput x p d kk s = calculateConvOutput y p d kk s := by
  simp only [calculateConvOutput, hx, hy]
  simp only [bind, Except.bind, pure, Except.pure]
  apply mapM_congr_range
  intro i _
  exact convAxisVal_congr _ _ _ _ _ _ i (by rw [indexTuple_scalar x k hx, indexTuple_scalar y k hy])

/-- `v[1]` of a well-formed shape value `[c, n]` reads as `n` -/
theorem shapeIndex_one (v : Val) (c n1 : Int) (h : Spec.shapeOfVal v = some [c, n1]) (hw : WFShape v) :
    ∃ x, shapeIndex v 1 = .ok x ∧ Val.asInt? x = some n1 := by
  cases v with
  | arr dt sh d =>
    match sh, h, hw with
    | [n], h, hw =>
      simp only [Spec.shapeOfVal] at h
      simp only [WFShape] at hw
      obtain ⟨hw, _⟩ := hw
      split at h
      · rename_i hk
        have hint : dt.isInteger = true := by simpa [DType.isInteger] using hk
        simp only [Option.some.injEq, decodeInts] at h
        match hc : chunks dt.size d, h with
        | [b0, b1], h =>
          rw [hc] at hw
          simp only [List.map_cons, List.map_nil, List.cons.injEq, and_true] at h
          refine ⟨nativeScalar dt b1, ?_, by simp [asInt_nativeScalar dt hint, h.2]⟩
          simp [shapeIndex, hw, hc]
      · split at h <;> simp at h
  | tuple xs =>
    simp only [Spec.shapeOfVal] at h
    rw [← asInt_eq] at h
    obtain ⟨a, ha, hfa⟩ := mapM_some_index _ _ _ h 1 (by simp)
    exact ⟨a, by simp [shapeIndex, ha], by simpa using hfa⟩
  | list xs =>
    simp only [Spec.shapeOfVal] at h
    rw [← asInt_eq] at h
    obtain ⟨a, ha, hfa⟩ := mapM_some_index _ _ _ h 1 (by simp)
    exact ⟨a, by simp [shapeIndex, ha], by simpa using hfa⟩
  | _ => simp [Spec.shapeOfVal] at h

/-- one loop body on an erased **Conv1d** node -/
theorem stepNode_conv1d (pre post : Node) (vo vi w : Val) (c n1 : Int) (outs : List Int) (wsh : List Nat)
    (hk : post.kind = "Conv1d") (hout : post.outputType = typeDict "output" .none)
    (hw : post.field? "weight" = some w) (hwsh : getShape w = .ok wsh) (hrank : 1 ≤ wsh.length)
    (hpo : pre.outputType = typeDict "output" vo) (hso : Spec.shapeOfVal vo = some [c, n1])
    (hpi : post.inputType = typeDict "input" vi) (hvi : PortVal vi) (hwo : WFShape vo) (hwi : WFShape vi)
    (hcalc : calculateConvOutput (.int n1) ((post.field? "padding").getD .none)
      ((post.field? "dilation").getD .none) (kernelOf wsh) ((post.field? "stride").getD .none) = .ok outs)
    (hfit : FitsI64 (Int.ofNat (wsh.getD 0 0) :: outs)) :
    (stepNode pre post).2 = none ∧
      HasTypesK (stepNode pre post).1 ([c, n1], Int.ofNat (wsh.getD 0 0) :: outs) := by
  obtain ⟨v, h1, hv, hwv⟩ := inferInput_keyed pre post vo vi _ hpo hso hpi hvi hwo hwi
  have hwsa := wf_shapeArray (Int.ofNat (wsh[0]?.getD 0) :: outs)
  obtain ⟨x, hx, hread⟩ := shapeIndex_one v c n1 hv hwv
  have hcong := calculateConvOutput_scalar x (.int n1) n1 hread rfl
  have hsa := shapeOfVal_shapeArray _ hfit
  cases post with
  | mk k f i o m cc e =>
  simp only [Node.kind, Node.outputType, Node.field?, Node.fields] at hk hout hw hcalc
  subst hk hout
  simp only [typeDict] at h1
  have hlw : lookup "weight" (Py.insert "input_shape" x f) = some w := by
    rw [lookup_insert_ne _ _ _ _ (by decide)]; exact hw
  have hlp : lookup "padding" (Py.insert "input_shape" x f) = lookup "padding" f :=
    lookup_insert_ne _ _ _ _ (by decide)
  have hld : lookup "dilation" (Py.insert "input_shape" x f) = lookup "dilation" f :=
    lookup_insert_ne _ _ _ _ (by decide)
  have hls : lookup "stride" (Py.insert "input_shape" x f) = lookup "stride" f :=
    lookup_insert_ne _ _ _ _ (by decide)
  have hlen : ¬ wsh.length < 1 := by omega
  have hcalc' := hcong ((lookup "padding" f).getD .none) ((lookup "dilation" f).getD .none) (kernelOf wsh)
    ((lookup "stride" f).getD .none)
  rw [hcalc] at hcalc'
  simp only [kernelOf, ← List.map_drop] at hcalc'
  rw [List.map_drop] at hcalc'
  have hsa' : Spec.shapeOfVal (shapeArray (Int.ofNat (wsh[0]?.getD 0) :: outs)) = some (Int.ofNat (wsh[0]?.getD 0) :: outs) := by
    simpa using hsa
  simp only [Int.ofNat_eq_natCast] at hcalc' hsa' hwsa
  simp [stepNode, h1, mirrorOutput, Node.isKind, Node.kind, Node.setInputType, Node.setTypes, Node.inputType,
    Node.outputType, inferOutput, typeDict, typeUndefined_single, isNoneVal, inferConv, convInputShape, getItem,
    Py.lookup, hx, convOutputType, Node.setField, Node.field?, Node.fields, hlw, hlp, hld, hls, hwsh, hlen, hcalc',
    Node.setOutputType, HasTypesK, hv, hsa', hwv, hwsa, bind, Except.bind, pure, Except.pure]

/-! ### pooling: the spatial part `v[1:]` of the predecessor's output shape -/

theorem chunksAux_nil (w fuel : Nat) (hw : 1 ≤ w) : chunksAux w fuel [] = [] := by
  cases fuel with
  | zero => rfl
  | succ f => simp [chunksAux]

theorem chunks_zero (b : Bytes) : chunks 0 b = [] := by
  unfold chunks
  cases b.length <;> simp [chunksAux]

theorem chunksAux_fuel (w : Nat) (hw : 1 ≤ w) (fuel fuel' : Nat) (b : Bytes) (h : b.length ≤ fuel) (h' : b.length ≤ fuel') :
    chunksAux w fuel b = chunksAux w fuel' b := by
  induction fuel generalizing fuel' b with
  | zero =>
    have : b = [] := by simpa using h
    subst this
    rw [chunksAux_nil w fuel' hw]; rfl
  | succ f ih =>
    cases fuel' with
    | zero =>
      have : b = [] := by simpa using h'
      subst this
      rw [chunksAux_nil w _ hw]; rfl
    | succ f' =>
      simp only [chunksAux]
      split
      · rfl
      · rename_i hc
        have hlen : w ≤ b.length := by omega
        have hd : (b.drop w).length ≤ f := by simp; omega
        have hd' : (b.drop w).length ≤ f' := by simp; omega
        rw [ih f' (b.drop w) hd hd']

theorem chunks_drop (w : Nat) (hw : 1 ≤ w) (b : Bytes) : chunks w (b.drop w) = (chunks w b).tail := by
  unfold chunks
  cases hb : b.length with
  | zero =>
    have : b = [] := by simpa using hb
    subst this
    simp [chunksAux]
  | succ k =>
    simp only [chunksAux]
    split
    · rename_i hc
      have : b.drop w = [] := by
        apply List.drop_eq_nil_of_le
        omega
      rw [this]; simp [chunksAux]
    · rename_i hc
      simp only [List.tail_cons]
      apply chunksAux_fuel w hw
      · exact Nat.le_refl _
      · simp; omega

theorem reading_list (ys : List Val) (xs : List Int) (h : ys.mapM Val.asInt? = some xs) :
    IntReading (.list ys) xs where
  notInt := rfl
  len := by simp [Val.len?, mapM_some_length _ _ _ h]
  index := by
    intro i hi
    obtain ⟨a, ha, hfa⟩ := mapM_some_index _ _ _ h i hi
    simp [indexTuple, ha, hfa]

theorem mapM_cons_some {α β : Type} (f : α → Option β) (x : α) (xs : List α) (c : β) (r : List β)
    (h : (x :: xs).mapM f = some (c :: r)) : f x = some c ∧ xs.mapM f = some r := by
  simp only [List.mapM_cons, Option.bind_eq_bind] at h
  cases hx : f x with
  | none => simp [hx] at h
  | some b =>
    cases hr : xs.mapM f with
    | none => simp [hx, hr] at h
    | some bs =>
      simp [hx, hr] at h
      exact ⟨by rw [h.1], by rw [h.2]⟩

/-- `v[1:]` and `v[0]` of a well-formed shape value `[c, *spatial]` -/
theorem shapeTail_reading (v : Val) (c : Int) (spatial : List Int) (h : Spec.shapeOfVal v = some (c :: spatial))
    (hw : WFShape v) :
    (∃ y, shapeTail v = .ok y ∧ IntReading y spatial) ∧
    (∃ x, shapeIndex v 0 = .ok x ∧ Val.asInt? x = some c ∧ NoUnsigned x) := by
  cases v with
  | arr dt sh d =>
    match sh, h, hw with
    | [n], h, hw =>
      simp only [Spec.shapeOfVal] at h
      simp only [WFShape] at hw
      obtain ⟨hw, hnu⟩ := hw
      split at h
      · rename_i hk
        have hint : dt.isInteger = true := by simpa [DType.isInteger] using hk
        simp only [Option.some.injEq, decodeInts] at h
        cases hc : chunks dt.size d with
        | nil => rw [hc] at h; simp at h
        | cons b rest =>
          rw [hc] at h hw
          simp only [List.map_cons, List.cons.injEq] at h
          have hsz : 1 ≤ dt.size := by
            cases hz : dt.size with
            | zero => rw [hz, chunks_zero] at hc; cases hc
            | succ k => omega
          have htail : chunks dt.size (d.drop dt.size) = rest := by rw [chunks_drop _ hsz, hc]; rfl
          have hlen : spatial.length = rest.length := by rw [← h.2]; simp
          refine ⟨⟨.arr dt [n - 1] (d.drop dt.size), by simp [shapeTail], ?_⟩,
                  ⟨nativeScalar dt b, by simp [shapeIndex, hw, hc], by simp [asInt_nativeScalar dt hint, h.1],
                    fun dt' b' e => by simp only [nativeScalar, Val.npscalar.injEq] at e; rw [← e.1]; exact hnu⟩⟩
          refine ⟨rfl, by simp [Val.len?, hw, hlen], ?_⟩
          intro i hi
          have hi' : i < n - 1 := by rw [hw]; simp; omega
          have hdec : decodeInts dt (d.drop dt.size) = spatial := by
            simp only [decodeInts, htail]; exact h.2
          simp [indexTuple, hi', hint, hdec, hi]
      · split at h <;> simp at h
  | tuple xs =>
    simp only [Spec.shapeOfVal] at h
    rw [← asInt_eq] at h
    cases xs with
    | nil => simp at h
    | cons x xs' =>
      obtain ⟨hx, hr⟩ := mapM_cons_some _ _ _ _ _ h
      exact ⟨⟨.tuple xs', by simp [shapeTail], reading_tuple xs' spatial hr⟩,
        ⟨x, by simp [shapeIndex], hx, hw x List.mem_cons_self⟩⟩
  | list xs =>
    simp only [Spec.shapeOfVal] at h
    rw [← asInt_eq] at h
    cases xs with
    | nil => simp at h
    | cons x xs' =>
      obtain ⟨hx, hr⟩ := mapM_cons_some _ _ _ _ _ h
      exact ⟨⟨.list xs', by simp [shapeTail], reading_list xs' spatial hr⟩,
        ⟨x, by simp [shapeIndex], hx, hw x List.mem_cons_self⟩⟩
  | _ => simp [Spec.shapeOfVal] at h

theorem poolArray_cons (c o : Int) (os : List Int) (x : Val) (hx : NoUnsigned x) :
    poolArray c (o :: os) x = .ok (shapeArray (c :: o :: os)) := by
  unfold poolArray
  split
  · rename_i h; cases h
  · rename_i dt b _
    have : dt.kind ≠ DKind.uint := hx dt b rfl
    have e : (dt.kind == DKind.uint) = false := by simpa using this
    simp [e]
  · rfl

/-- one loop body on a **pooling** node (its types are never serialised, so after every read
they are erased): the output type is `[c, *calculate_conv_output(spatial, padding, 1, kernel_size, stride)]` -/
theorem stepNode_pool (pre post : Node) (vo vi : Val) (c : Int) (spatial outs : List Int)
    (hk : post.kind = "SumPool2d" ∨ post.kind = "AvgPool2d") (hout : post.outputType = typeDict "output" .none)
    (hpo : pre.outputType = typeDict "output" vo) (hso : Spec.shapeOfVal vo = some (c :: spatial))
    (hpi : post.inputType = typeDict "input" vi) (hvi : PortVal vi) (hwo : WFShape vo) (hwi : WFShape vi)
    (hcalc : calculateConvOutput (.tuple (spatial.map Val.int)) ((post.field? "padding").getD .none)
      (.int 1) ((post.field? "kernel_size").getD .none) ((post.field? "stride").getD .none) = .ok outs)
    (hne : outs ≠ []) (hfit : FitsI64 (c :: outs)) :
    (stepNode pre post).2 = none ∧ HasTypesK (stepNode pre post).1 (c :: spatial, c :: outs) := by
  obtain ⟨v, h1, hv, hwv⟩ := inferInput_keyed pre post vo vi _ hpo hso hpi hvi hwo hwi
  have hwsa := wf_shapeArray (c :: outs)
  obtain ⟨⟨y, hy, hread⟩, _⟩ := shapeTail_reading vo c spatial hso hwo
  obtain ⟨_, ⟨x, hx, hxc, hxu⟩⟩ := shapeTail_reading v c spatial hv hwv
  have hcong := calculateConvOutput_reading y (.tuple (spatial.map Val.int)) spatial hread
    (reading_tuple _ spatial (mapM_asInt_ints spatial))
  have hsa := shapeOfVal_shapeArray _ hfit
  obtain ⟨o1, orest, rfl⟩ : ∃ a as, outs = a :: as := by
    cases outs with
    | nil => exact absurd rfl hne
    | cons a as => exact ⟨a, as, rfl⟩
  cases pre with
  | mk pk pf pi po pm pc pe =>
  cases post with
  | mk k f i o m cc e =>
  simp only [Node.kind, Node.outputType, Node.field?, Node.fields] at hk hout hcalc hpo
  subst hout hpo
  simp only [typeDict] at h1
  have hcalc' := hcong ((lookup "padding" f).getD .none) (.int 1) ((lookup "kernel_size" f).getD .none)
    ((lookup "stride" f).getD .none)
  rw [hcalc] at hcalc'
  rcases hk with rfl | rfl <;>
  simp [stepNode, h1, mirrorOutput, Node.isKind, Node.kind, Node.setInputType, Node.setTypes, Node.inputType,
    Node.outputType, inferOutput, typeDict, typeUndefined_single, isNoneVal, inferPool, poolOutputType, getItem,
    Py.lookup, hy, hx, hxc, Node.field?, Node.fields, hcalc', poolArray_cons _ _ _ _ hxu,
    Node.setOutputType, HasTypesK, hv, hsa, hwv, hwsa, bind, Except.bind, pure, Except.pure]

end NirVerif.Lemmas
