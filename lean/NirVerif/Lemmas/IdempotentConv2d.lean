import NirVerif.Lemmas.Idempotent
/-
  Conv2d normalises integer stride / padding / dilation to pairs; on the stored (paired) values
  the constructor is the identity.
-/
namespace NirVerif.Lemmas
open NirVerif NirVerif.Py NirVerif.Model

def conv2dSpec : List (String × Option Val) := (lookup "Conv2d" Generated.classFields).getD []

theorem list_of_keys8 (f : List (String × Val)) (k1 k2 k3 k4 k5 k6 k7 k8 : String)
    (h : f.map Prod.fst = [k1, k2, k3, k4, k5, k6, k7, k8]) :
    ∃ a1 a2 a3 a4 a5 a6 a7 a8, f = [(k1, a1), (k2, a2), (k3, a3), (k4, a4), (k5, a5), (k6, a6), (k7, a7), (k8, a8)] := by
  match f, h with
  | [(_, a1), (_, a2), (_, a3), (_, a4), (_, a5), (_, a6), (_, a7), (_, a8)], h =>
    simp only [List.map_cons, List.map_nil, List.cons.injEq, and_true] at h
    obtain ⟨rfl, rfl, rfl, rfl, rfl, rfl, rfl, rfl⟩ := h
    exact ⟨a1, a2, a3, a4, a5, a6, a7, a8, rfl⟩

theorem pairInt_idem (v : Val) : pairInt (pairInt v) = pairInt v := by
  unfold pairInt
  cases v <;> simp [isPyInt]

theorem convPaddingCheck_pair (v : Val) : convPaddingCheck (pairInt v) = convPaddingCheck v := by
  unfold pairInt
  cases v <;> simp [isPyInt, convPaddingCheck]

def conv2dBound (a1 a2 a3 a4 a5 a6 a7 a8 : Val) : List (String × Val) :=
  [("input_shape", a1), ("weight", a2), ("stride", a3), ("padding", a4), ("dilation", a5), ("groups", a6),
   ("bias", a7), ("metadata", a8)]

/-- the constructor sees stride / padding / dilation only through their paired forms -/
theorem postInit_conv2d_pair (a1 a2 a3 a4 a5 a6 a7 a8 : Val) :
    postInit "Conv2d" (conv2dBound a1 a2 (pairInt a3) (pairInt a4) (pairInt a5) a6 a7 a8) =
      postInit "Conv2d" (conv2dBound a1 a2 a3 a4 a5 a6 a7 a8) := by
  simp only [postInit, conv2dBound, lookup, bind, Except.bind, pure, Except.pure, List.filter,
    beq_self_eq_true, if_true, String.reduceBEq, Bool.false_eq_true, if_false, String.reduceBNe, Bool.and_self,
    Bool.and_false, Bool.and_true, pairInt_idem, convPaddingCheck_pair, Py.insert]

theorem postInit_conv2d_fields (a1 a2 a3 a4 a5 a6 a7 a8 : Val) (n : Node)
    (h : postInit "Conv2d" (conv2dBound a1 a2 a3 a4 a5 a6 a7 a8) = .ok n) :
    n.fields = [("input_shape", a1), ("weight", a2), ("stride", pairInt a3), ("padding", pairInt a4),
      ("dilation", pairInt a5), ("groups", a6), ("bias", a7)] := by
  simp only [postInit, conv2dBound, lookup, bind, Except.bind, pure, Except.pure, List.filter,
    beq_self_eq_true, if_true, String.reduceBEq, Bool.false_eq_true, if_false, String.reduceBNe, Bool.and_self,
    Bool.and_false, Bool.and_true, Py.insert] at h
  cases hc : convPaddingCheck a4 with
  | error e => rw [hc] at h; cases h
  | ok u =>
    rw [hc] at h
    simp only at h
    cases a1 <;> simp only at h <;> (repeat' split at h) <;> (try cases h) <;> rfl

theorem construct_idem_conv2d (kw : List (String × Val)) (n : Node)
    (h : construct "Conv2d" kw = .ok n) :
    construct "Conv2d" (n.fields ++ [("metadata", n.metadata)]) = .ok n := by
  have hspec : lookup "Conv2d" Generated.classFields = some conv2dSpec := rfl
  unfold construct at h ⊢
  rw [hspec] at h ⊢
  simp only [bind, Except.bind] at h ⊢
  cases hb : bindKwargs conv2dSpec kw with
  | error e => rw [hb] at h; cases h
  | ok f =>
    rw [hb] at h
    simp only at h
    have hkeys : f.map Prod.fst = conv2dSpec.map Prod.fst := by
      unfold bindKwargs at hb
      split at hb
      · cases hb
      · exact (lookup_bindAll kw conv2dSpec f hb (by decide)).1
    obtain ⟨a1, a2, a3, a4, a5, a6, a7, a8, rfl⟩ := list_of_keys8 f _ _ _ _ _ _ _ _ hkeys
    have hm : n.metadata = a8 := (postInit_leaf "Conv2d" _ n h).2.2
    rw [postInit_conv2d_fields a1 a2 a3 a4 a5 a6 a7 a8 n h, hm]
    have hb2 : bindKwargs conv2dSpec ([("input_shape", a1), ("weight", a2), ("stride", pairInt a3), ("padding", pairInt a4),
        ("dilation", pairInt a5), ("groups", a6), ("bias", a7)] ++ [("metadata", a8)]) =
        .ok (conv2dBound a1 a2 (pairInt a3) (pairInt a4) (pairInt a5) a6 a7 a8) := rfl
    rw [hb2]
    simp only
    rw [postInit_conv2d_pair]
    exact h

theorem construct_conv2d_clean (kw : List (String × Val)) (n : Node) (h : construct "Conv2d" kw = .ok n) :
    lookup "type" n.fields = none ∧ lookup "metadata" n.fields = none := by
  have hspec : lookup "Conv2d" Generated.classFields = some conv2dSpec := rfl
  unfold construct at h
  rw [hspec] at h
  simp only [bind, Except.bind] at h
  cases hb : bindKwargs conv2dSpec kw with
  | error e => rw [hb] at h; cases h
  | ok f =>
    rw [hb] at h
    simp only at h
    have hkeys : f.map Prod.fst = conv2dSpec.map Prod.fst := by
      unfold bindKwargs at hb
      split at hb
      · cases hb
      · exact (lookup_bindAll kw conv2dSpec f hb (by decide)).1
    obtain ⟨a1, a2, a3, a4, a5, a6, a7, a8, rfl⟩ := list_of_keys8 f _ _ _ _ _ _ _ _ hkeys
    rw [postInit_conv2d_fields a1 a2 a3 a4 a5 a6 a7 a8 n h]
    exact ⟨rfl, rfl⟩

end NirVerif.Lemmas
