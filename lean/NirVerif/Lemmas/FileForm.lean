import NirVerif.Model.File
import NirVerif.Lemmas.Dict
/-! Lemmas about the file form: sorted link insertion, what the writer stores, what the reader returns. -/
namespace NirVerif.Lemmas
open NirVerif NirVerif.Py NirVerif.Model

theorem codesLE_refl (l : List Nat) : codesLE l l = true := by
  induction l with
  | nil => rfl
  | cons a as ih => simp [codesLE, ih]

theorem nameLE_refl (s : String) : nameLE s s = true := codesLE_refl _

theorem lookup_insertSorted (name : String) (item : H5) (acc : List (String × H5)) (k : String) :
    lookup k (insertSorted name item acc) = if k = name then some item else lookup k acc := by
  induction acc with
  | nil =>
    by_cases hk : k = name
    · subst hk; simp [insertSorted, lookup]
    · have : (name == k) = false := by simpa using (Ne.symm hk)
      simp [insertSorted, lookup, this, hk]
  | cons kv rest ih =>
    obtain ⟨k0, v0⟩ := kv
    simp only [insertSorted]
    by_cases hle : nameLE name k0 = true
    · simp only [hle, if_true]
      by_cases hk : k = name
      · subst hk; simp [lookup]
      · have : (name == k) = false := by simpa using (Ne.symm hk)
        simp [lookup, this, hk]
    · simp only [hle, Bool.false_eq_true, if_false]
      by_cases hk0 : (k0 == k) = true
      · have hkk : k0 = k := by simpa using hk0
        subst hkk
        by_cases hkn : k0 = name
        · subst hkn; exact absurd (nameLE_refl k0) hle
        · simp [lookup, hkn]
      · simp only [lookup, hk0, Bool.false_eq_true, if_false]
        exact ih

theorem lookup_h5Insert (name : String) (item : H5) (acc acc' : List (String × H5))
    (h : h5Insert name item acc = some acc') (k : String) :
    lookup k acc' = if k = name then some item else lookup k acc := by
  unfold h5Insert at h
  split at h
  · cases h
  · cases h; exact lookup_insertSorted name item acc k

theorem h5Insert_fresh (name : String) (item : H5) (acc acc' : List (String × H5))
    (h : h5Insert name item acc = some acc') : lookup name acc = none := by
  unfold h5Insert at h
  split at h
  · cases h
  · rename_i hh
    simp only [hasKey, Bool.not_eq_true, Option.isSome_eq_false_iff, Option.isNone_iff_eq_none] at hh
    exact hh

theorem addMember_lookup (k : String) (item : H5) (acc acc' : List (String × H5))
    (h : addMember k item acc = .ok acc') (k' : String) :
    lookup k' acc' = (if k' = k then some item else lookup k' acc) ∧ lookup k acc = none := by
  unfold addMember at h
  split at h
  · cases h
  · split at h
    · rename_i hi
      cases h
      exact ⟨lookup_h5Insert _ _ _ _ hi k', h5Insert_fresh _ _ _ _ hi⟩
    · cases h

/-- members already created survive the rest of `write_recursive` (a clash would have raised) -/
theorem write_preserves (fuel : Nat) (kvs : List (String × Val)) (acc items : List (String × H5))
    (h : writeRecursiveFuel fuel kvs acc = .ok items) (k : String) (x : H5) (hx : lookup k acc = some x) :
    lookup k items = some x := by
  induction kvs generalizing fuel acc with
  | nil =>
    cases fuel <;> simp [writeRecursiveFuel] at h
    subst h; exact hx
  | cons kv rest ih =>
    obtain ⟨k0, v0⟩ := kv
    cases fuel with
    | zero => simp [writeRecursiveFuel] at h
    | succ fuel =>
      simp only [writeRecursiveFuel] at h
      split at h
      · cases h
      · split at h
        · cases h
        · exact ih _ _ h hx
        · split at h
          · cases h
          · rename_i item _ acc' ha
            apply ih _ _ h
            obtain ⟨h1, h2⟩ := addMember_lookup _ _ _ _ ha k
            rw [h1]
            split
            · rename_i hkk; subst hkk; rw [h2] at hx; cases hx
            · exact hx

/-- **Writer**: every entry of a dictionary that is neither a sub-dictionary nor `metadata` is
stored under its own key as the dataset `h5Create` makes of its value — whatever its position
and whatever its siblings. -/
theorem write_lookup (fuel : Nat) (kvs : List (String × Val)) (acc items : List (String × H5))
    (h : writeRecursiveFuel fuel kvs acc = .ok items) (k : String) (v : Val)
    (hk : lookup k kvs = some v) (hnm : k ≠ "metadata") (hnd : ∀ d, v ≠ .dict d) :
    ∃ ds, h5Create v = some ds ∧ lookup k items = some (.dset ds) := by
  induction kvs generalizing fuel acc with
  | nil => simp [lookup] at hk
  | cons kv rest ih =>
    obtain ⟨k0, v0⟩ := kv
    cases fuel with
    | zero => simp [writeRecursiveFuel] at h
    | succ fuel =>
      simp only [writeRecursiveFuel] at h
      by_cases hk0 : (k0 == k) = true
      · -- this entry
        have hkk : k0 = k := by simpa using hk0
        subst hkk
        simp only [lookup, hk0, if_true, Option.some.injEq] at hk
        subst hk
        have hm : (k0 == "metadata") = false := by simpa using hnm
        split at h
        · cases h
        · cases hv : v0 with
          | dict d => exact absurd hv (hnd d)
          | _ =>
            all_goals
              simp only [hv, hm, Bool.false_eq_true, if_false] at h
              cases hc : h5Create v0 with
              | none => simp [hv] at hc; simp [hc] at h
              | some ds =>
                rw [hv] at hc
                simp only [hc] at h
                split at h
                · cases h
                · rename_i acc' ha
                  refine ⟨ds, hc, ?_⟩
                  apply write_preserves _ _ _ _ h
                  rw [(addMember_lookup _ _ _ _ ha k0).1]; simp
      · -- a later entry
        have hk0' : (k0 == k) = false := by simpa using hk0
        simp only [lookup, hk0', Bool.false_eq_true, if_false] at hk
        split at h
        · cases h
        · split at h
          · cases h
          · exact ih _ _ h hk
          · split at h
            · cases h
            · exact ih _ _ h hk


/-- a sub-dictionary is stored as the group its own `write_recursive` produces (the empty
`metadata` dictionary apart, which is skipped) -/
theorem write_lookup_group (fuel : Nat) (kvs : List (String × Val)) (acc items : List (String × H5))
    (h : writeRecursiveFuel fuel kvs acc = .ok items) (k : String) (d : List (String × Val))
    (hk : lookup k kvs = some (.dict d)) (hne : ¬ (k = "metadata" ∧ d = [])) :
    ∃ fuel' sub, writeRecursiveFuel fuel' d [] = .ok sub ∧ lookup k items = some (.group sub) := by
  induction kvs generalizing fuel acc with
  | nil => simp [lookup] at hk
  | cons kv rest ih =>
    obtain ⟨k0, v0⟩ := kv
    cases fuel with
    | zero => simp [writeRecursiveFuel] at h
    | succ fuel =>
      simp only [writeRecursiveFuel] at h
      by_cases hk0 : (k0 == k) = true
      · have hkk : k0 = k := by simpa using hk0
        subst hkk
        simp only [lookup, hk0, if_true, Option.some.injEq] at hk
        subst hk
        have hskip : (k0 == "metadata" && d.isEmpty) = false := by
          by_cases hm : k0 = "metadata"
          · have : d ≠ [] := fun e => hne ⟨hm, e⟩
            cases d with
            | nil => exact absurd rfl this
            | cons _ _ => simp
          · have : (k0 == "metadata") = false := by simpa using hm
            simp [this]
        split at h
        · cases h
        · simp only [hskip, Bool.false_eq_true, if_false] at h
          cases hw : writeRecursiveFuel fuel d [] with
          | error e => simp [hw] at h
          | ok sub =>
            simp only [hw] at h
            split at h
            · cases h
            · rename_i acc' ha
              refine ⟨fuel, sub, hw, ?_⟩
              apply write_preserves _ _ _ _ h
              rw [(addMember_lookup _ _ _ _ ha k0).1]; simp
      · have hk0' : (k0 == k) = false := by simpa using hk0
        simp only [lookup, hk0', Bool.false_eq_true, if_false] at hk
        split at h
        · cases h
        · split at h
          · cases h
          · exact ih _ _ h hk
          · split at h
            · cases h
            · exact ih _ _ h hk

/-- nothing but the dictionary's own keys is created -/
theorem write_no_extra (fuel : Nat) (kvs : List (String × Val)) (acc items : List (String × H5))
    (h : writeRecursiveFuel fuel kvs acc = .ok items) (k : String) (hk : lookup k kvs = none) :
    lookup k items = lookup k acc := by
  induction kvs generalizing fuel acc with
  | nil => cases fuel <;> simp [writeRecursiveFuel] at h <;> subst h <;> rfl
  | cons kv rest ih =>
    obtain ⟨k0, v0⟩ := kv
    have hk0 : (k0 == k) = false := by
      by_cases hh : (k0 == k) = true
      · simp [lookup, hh] at hk
      · simpa using hh
    simp only [lookup, hk0, Bool.false_eq_true, if_false] at hk
    have hne : k ≠ k0 := by
      intro e; subst e; simp at hk0
    cases fuel with
    | zero => simp [writeRecursiveFuel] at h
    | succ fuel =>
      simp only [writeRecursiveFuel] at h
      split at h
      · cases h
      · split at h
        · cases h
        · exact ih _ _ h hk
        · split at h
          · cases h
          · rename_i acc' ha
            rw [ih _ _ h hk, (addMember_lookup _ _ _ _ ha k).1]
            simp [hne]

/-- **Reader**: a group is read back as the dictionary of its members, each dataset through
`item[()]` + `try_byte_to_str`. -/
theorem hdf2dict_lookup (items : List (String × H5)) (k : String) :
    lookup k (hdf2dict.hdf2dictItems items) = (lookup k items).map hdf2dict := by
  induction items with
  | nil => rfl
  | cons kv rest ih =>
    obtain ⟨k0, v0⟩ := kv
    simp only [hdf2dict.hdf2dictItems, lookup]
    split
    · rfl
    · exact ih


/-- value found by following a path of keys through nested dictionaries -/
def getPath : Val → List String → Option Val
  | v, [] => some v
  | .dict kvs, k :: rest => (lookup k kvs).bind (getPath · rest)
  | _, _ :: _ => none

/-- **Round trip along any path**: a leaf value found at a path of keys in a dictionary
(any depth) is found at the same path in what the reader returns for the written group, as
`h5Load` of the dataset `h5Create` made of it. -/
theorem path_roundtrip (path : List String) : ∀ (fuel : Nat) (kvs : List (String × Val)) (items : List (String × H5)),
    writeRecursiveFuel fuel kvs [] = .ok items → path ≠ [] → path.getLast? ≠ some "metadata" →
    ∀ v, getPath (.dict kvs) path = some v → (∀ d, v ≠ .dict d) →
    ∃ ds, h5Create v = some ds ∧ getPath (hdf2dict (.group items)) path = some (h5Load ds) := by
  induction path with
  | nil => intro _ _ _ _ h; exact absurd rfl h
  | cons k rest ih =>
    intro fuel kvs items h _ hlast v hp hleaf
    simp only [getPath] at hp
    cases hl : lookup k kvs with
    | none => simp [hl] at hp
    | some x =>
      simp only [hl, Option.bind_some] at hp
      cases rest with
      | nil =>
        simp only [getPath, Option.some.injEq] at hp
        subst hp
        have hkm : k ≠ "metadata" := by
          intro e; apply hlast; simp [e]
        obtain ⟨ds, hc, hlk⟩ := write_lookup fuel kvs [] items h k x hl hkm hleaf
        refine ⟨ds, hc, ?_⟩
        simp [hdf2dict, getPath, hdf2dict_lookup, hlk]
      | cons k2 rest2 =>
        cases x with
        | dict d =>
          have hne : ¬ (k = "metadata" ∧ d = []) := by
            rintro ⟨_, rfl⟩
            simp [getPath, lookup] at hp
          obtain ⟨fuel', sub, hw, hlk⟩ := write_lookup_group fuel kvs [] items h k d hl hne
          have hlast' : (k2 :: rest2).getLast? ≠ some "metadata" := by
            simpa [List.getLast?_cons_cons] using hlast
          obtain ⟨ds, hc, hg⟩ := ih fuel' d sub hw (by simp) hlast' v hp hleaf
          refine ⟨ds, hc, ?_⟩
          simp only [hdf2dict, getPath, hdf2dict_lookup, hlk, Option.map_some, Option.bind_some]
          simpa [hdf2dict, getPath, hdf2dict_lookup] using hg
        | _ => simp [getPath] at hp

end NirVerif.Lemmas
