import NirVerif.Py.Value
/-! Association-list (Python dict) lemmas. -/
namespace NirVerif.Lemmas
open NirVerif.Py

theorem lookup_insert_self {α} (k : String) (v : α) (d : List (String × α)) :
    lookup k (insert k v d) = some v := by
  induction d with
  | nil => simp [Py.insert, lookup]
  | cons kv rest ih =>
    obtain ⟨k', v'⟩ := kv
    by_cases h : (k' == k) = true
    · simp [Py.insert, lookup, h]
    · simp [Py.insert, lookup, h, ih]

theorem lookup_insert_ne {α} (k k' : String) (v : α) (d : List (String × α)) (hne : k' ≠ k) :
    lookup k' (insert k v d) = lookup k' d := by
  induction d with
  | nil =>
    have : (k == k') = false := by simp [Ne.symm hne]
    simp [Py.insert, lookup, this]
  | cons kv rest ih =>
    obtain ⟨k0, v0⟩ := kv
    by_cases h : (k0 == k) = true
    · have hk : k0 = k := by simpa using h
      subst hk
      have : (k0 == k') = false := by simp [Ne.symm hne]
      simp [Py.insert, lookup, this]
    · have h' : (k0 == k) = false := by simpa using h
      simp only [Py.insert, h', Bool.false_eq_true, if_false, lookup, ih]

theorem insert_of_not_mem {α} (k : String) (v : α) (d : List (String × α)) (h : k ∉ d.map Prod.fst) :
    insert k v d = d ++ [(k, v)] := by
  induction d with
  | nil => rfl
  | cons kv rest ih =>
    obtain ⟨k0, v0⟩ := kv
    have hne : (k0 == k) = false := by
      simp at h; simp [Ne.symm h.1]
    have hrest : k ∉ rest.map Prod.fst := by
      simp at h ⊢; exact h.2
    simp [Py.insert, hne, ih hrest]

theorem lookup_eq_none_of_not_mem {α} (k : String) (d : List (String × α)) (h : k ∉ d.map Prod.fst) :
    lookup k d = none := by
  induction d with
  | nil => rfl
  | cons kv rest ih =>
    obtain ⟨k0, v0⟩ := kv
    simp at h
    have hne : (k0 == k) = false := by simp [Ne.symm h.1]
    simp only [lookup, hne]
    exact ih (by simpa using h.2)

theorem lookup_isSome_of_mem {α} (k : String) (d : List (String × α)) (h : k ∈ d.map Prod.fst) :
    (lookup k d).isSome := by
  induction d with
  | nil => simp at h
  | cons kv rest ih =>
    obtain ⟨k0, v0⟩ := kv
    by_cases hk : (k0 == k) = true
    · simp [lookup, hk]
    · simp only [lookup, hk]
      simp at h hk
      rcases h with h | h
      · exact absurd h.symm hk
      · exact ih (by simpa using h)

end NirVerif.Lemmas
