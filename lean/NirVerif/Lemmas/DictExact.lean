import NirVerif.Lemmas.GraphBack
import NirVerif.Lemmas.Idempotent
import NirVerif.Lemmas.IdempotentConv2d
/-
  Exactness of the dictionary round trip, in a form that composes under graphs: whatever fuel
  (nesting bound) the surrounding graph supplies.
-/
namespace NirVerif.Lemmas
open NirVerif NirVerif.Py NirVerif.Model

/-- `from_dict(to_dict(n))` is `n`, at any fuel -/
def DictExact (n : Node) : Prop := ∃ d, toDict n = .ok d ∧ ∀ fuel, fromDictFuel (fuel + 1) d = .ok n

theorem erase_type_append' (fields : List (String × Val)) (md : Val) (kind : String)
    (hnt : lookup "type" fields = none) :
    erase "type" (fields ++ [("metadata", md), ("type", Val.str kind)]) = fields ++ [("metadata", md)] := by
  induction fields with
  | nil => simp [erase]
  | cons kv rest ih =>
    obtain ⟨k0, v0⟩ := kv
    simp only [lookup] at hnt
    by_cases h0 : (k0 == "type") = true
    · simp [h0] at hnt
    · simp only [h0, Bool.false_eq_true, if_false] at hnt
      simp only [List.cons_append, erase, h0, Bool.false_eq_true, if_false, ih hnt]

theorem toDict_generic' (kind : String) (fields : List (String × Val)) (it ot md : Val)
    (hk : kind ≠ "NIRGraph" ∧ kind ≠ "Input" ∧ kind ≠ "Output" ∧ kind ≠ "Flatten") :
    toDict (Node.mk kind fields it ot md [] []) = .ok (.dict (fields ++ [("metadata", md), ("type", .str kind)])) := by
  obtain ⟨h1, h2, h3, h4⟩ := hk
  unfold toDict
  split <;> first | rfl | simp_all

/-- a node with the generic dictionary form on which the constructor is idempotent -/
theorem dictExact_of_idem (kind : String) (n : Node) (hkind : n.kind = kind) (hleaf : n.children = [] ∧ n.edges = [])
    (hw : kind ∈ Generated.whitelist)
    (hg : kind ≠ "NIRGraph" ∧ kind ≠ "Input" ∧ kind ≠ "Output" ∧ kind ≠ "Flatten")
    (hnt : lookup "type" n.fields = none)
    (hidem : construct kind (n.fields ++ [("metadata", n.metadata)]) = .ok n) : DictExact n := by
  cases n with
  | mk k f i o m c e =>
    simp only [Node.kind, Node.children, Node.edges, Node.fields, Node.metadata] at hkind hleaf hnt hidem
    obtain ⟨hc, he⟩ := hleaf
    subst hkind hc he
    refine ⟨_, toDict_generic' k f i o m hg, ?_⟩
    intro fuel
    rw [fromDictFuel_generic fuel _ k (lookup_type_append' f m k hnt) hw ⟨hg.2.1, hg.2.2.1, hg.2.2.2, hg.1⟩,
      erase_type_append' f m k hnt]
    exact hidem

theorem dictExact_simple (kind : String) (kw : List (String × Val)) (n : Node) (hk : kind ∈ simpleKinds)
    (h : construct kind kw = .ok n)
    (hnot : lookup "input_type" kw = none ∧ lookup "output_type" kw = none) : DictExact n := by
  obtain ⟨hkind, hc, he⟩ := construct_kind kind kw n h
  obtain ⟨hw, hg⟩ := simple_generic kind hk
  exact dictExact_of_idem kind n hkind ⟨hc, he⟩ hw hg (construct_fields_clean kind kw n hk h).1
    (construct_idem kind kw n hk h hnot)

theorem dictExact_conv2d (kw : List (String × Val)) (n : Node) (h : construct "Conv2d" kw = .ok n) : DictExact n := by
  obtain ⟨hkind, hc, he⟩ := construct_kind "Conv2d" kw n h
  exact dictExact_of_idem "Conv2d" n hkind ⟨hc, he⟩ (by decide) (by decide) (construct_conv2d_clean kw n h).1
    (construct_idem_conv2d kw n h)

theorem dictExact_input (s md : Val) : DictExact (Node.mk "Input" [] (typeDict "input" s) (typeDict "output" s) md [] []) := by
  refine ⟨.dict [("metadata", md), ("type", .str "Input"), ("shape", s)], ?_, ?_⟩
  · simp only [toDict, typeEntry, getItem, typeDict, lookup, beq_self_eq_true, if_true, bind, Except.bind, pure, Except.pure,
      List.nil_append]
  · intro fuel
    have hc : Generated.whitelist.contains "Input" = true := by decide
    simp only [fromDictFuel, lookup, String.reduceBEq, Bool.false_eq_true, if_false, beq_self_eq_true, if_true,
      str2NIRNode, hc, bind, Except.bind, pure, Except.pure, Py.insert, erase, typeDict]
    rfl

theorem dictExact_output (s md : Val) : DictExact (Node.mk "Output" [] (typeDict "input" s) (typeDict "output" s) md [] []) := by
  refine ⟨.dict [("metadata", md), ("type", .str "Output"), ("shape", s)], ?_, ?_⟩
  · simp only [toDict, typeEntry, getItem, typeDict, lookup, beq_self_eq_true, if_true, bind, Except.bind, pure, Except.pure,
      List.nil_append]
  · intro fuel
    have hc : Generated.whitelist.contains "Output" = true := by decide
    simp only [fromDictFuel, lookup, String.reduceBEq, Bool.false_eq_true, if_false, beq_self_eq_true, if_true,
      str2NIRNode, hc, bind, Except.bind, pure, Except.pure, Py.insert, erase, typeDict]
    rfl

theorem decodeEdges_edgesVal (edges : List Edge) : decodeEdges (edgesVal edges) = .ok edges := by
  unfold edgesVal decodeEdges
  simp only
  induction edges with
  | nil => rfl
  | cons e rest ih =>
    simp only [List.map_cons, List.mapM_cons, ensureStr, bind, Except.bind, pure, Except.pure] at ih ⊢
    rw [ih]

/-- the children of a graph, to dictionaries and back, at any fuel -/
theorem children_dict_exact (children : List (String × Node)) (h : ∀ kn ∈ children, DictExact kn.2) :
    ∃ kids, toDict.toDictChildren children = .ok kids ∧
      ∀ fuel, (kids.mapM fun (kv : String × Val) => (fromDictFuel (fuel + 1) kv.2).map fun n => (kv.1, n)) = .ok children := by
  induction children with
  | nil => exact ⟨[], rfl, fun _ => rfl⟩
  | cons kn rest ih =>
    obtain ⟨k0, n0⟩ := kn
    obtain ⟨d0, hd0, hf0⟩ := h (k0, n0) List.mem_cons_self
    obtain ⟨kids, hk, hm⟩ := ih (fun kn hkn => h kn (List.mem_cons_of_mem _ hkn))
    refine ⟨(k0, d0) :: kids, ?_, ?_⟩
    · simp only [toDict.toDictChildren, hd0, hk, bind, Except.bind, pure, Except.pure]
    · intro fuel
      have h1 := hf0 fuel
      have h2 := hm fuel
      simp only at h1
      simp only [List.mapM_cons, bind, Except.bind, pure, Except.pure]
      rw [h1, h2]
      rfl

/-- **Exact dictionary round trip of a flat graph**: every child exact ⇒ the graph exact (same
children in the same order, same edges, same metadata, mirrored interface). -/
theorem graph_dict_exact (children : List (String × Node)) (edges : List Edge) (md : Val)
    (hkeys : (children.map Prod.fst).Nodup) (h : ∀ kn ∈ children, DictExact kn.2) :
    (toDict (mkGraph children edges md)).bind fromDict = .ok (mkGraph children edges md) := by
  obtain ⟨kids, hk, hm⟩ := children_dict_exact children h
  have htd : toDict (mkGraph children edges md) =
      .ok (.dict [("nodes", .dict kids), ("edges", edgesVal edges), ("metadata", md), ("type", .str "NIRGraph")]) := by
    simp only [mkGraph, toDict, hk, bind, Except.bind, pure, Except.pure]
  rw [htd]
  simp only [Except.bind, fromDict]
  generalize hD : [("nodes", Val.dict kids), ("edges", edgesVal edges), ("metadata", md), ("type", Val.str "NIRGraph")] = D
  have ht : lookup "type" D = some (.str "NIRGraph") := by rw [← hD]; rfl
  have hn : lookup "nodes" D = some (.dict kids) := by rw [← hD]; rfl
  have he : lookup "edges" D = some (edgesVal edges) := by rw [← hD]; rfl
  rw [fromDictFuel_graph _ D kids (edgesVal edges) ht hn he]
  have hfuel : Val.depth (.dict D) = Val.depth.depthList D + 1 := by simp only [Val.depth]; omega
  rw [hfuel, hm, decodeEdges_edgesVal]
  simp only [Except.bind]
  have hb : bindKwargs graphSpec (Py.insert "edges" Val.none (Py.insert "nodes" Val.none (erase "type" D))) =
      .ok [("nodes", Val.none), ("edges", Val.none), ("input_type", Val.none), ("output_type", Val.none), ("metadata", md)] := by
    rw [← hD]; rfl
  rw [hb]
  simp only [lookup, String.reduceBEq, Bool.false_eq_true, if_false, beq_self_eq_true, if_true, Option.getD_some]
  rw [insertAll_nil children hkeys]

end NirVerif.Lemmas
