import Mathlib.Data.Rat.Floor
import NirVerif.Spec.Conv

namespace NirVerif.Lemmas
open NirVerif

theorem slideFrom_eq (len span s : Nat) (hs : 0 < s) (off : Nat) :
    Spec.slideFrom len span s hs off
      = if off + span ≤ len then (len - span - off) / s + 1 else 0 := by
  fun_induction Spec.slideFrom len span s hs off with
  | case1 off hle ih =>
    rw [ih, if_pos hle]
    split
    · have : len - span - off = (len - span - (off + s)) + s := by omega
      rw [this, Nat.add_div_right _ hs]; omega
    · have : (len - span - off) / s = 0 := Nat.div_eq_of_lt (by omega)
      omega
  | case2 off hle => rw [if_neg hle]

theorem slide_eq (len span s : Nat) (hs : 0 < s) (h : span ≤ len) :
    Spec.slide len span s hs = (len - span) / s + 1 := by
  unfold Spec.slide; rw [slideFrom_eq]; simp [h]

theorem slide_eq_zero (len span s : Nat) (hs : 0 < s) (h : ¬ span ≤ len) :
    Spec.slide len span s hs = 0 := by
  unfold Spec.slide; rw [slideFrom_eq]; simp [h]

theorem floor_div (a s : Int) (hs : 0 < s) : Rat.floor ((a : Rat) / (s : Rat)) = a / s := by
  obtain ⟨n, rfl⟩ := Int.eq_ofNat_of_zero_le (le_of_lt hs)
  have h : Rat.floor ((a:ℚ) / (n:ℚ)) = a / (n : ℤ) := Rat.floor_intCast_div_natCast a n
  simpa using h

end NirVerif.Lemmas
