import NirVerif.Lemmas.DictExact
/-
  Flatten: the dictionary form stores the bare input shape under `input_type`; `from_dict`
  re-wraps it and the constructor recomputes the output type from it.
-/
namespace NirVerif.Lemmas
open NirVerif NirVerif.Py NirVerif.Model

def flattenSpec : List (String × Option Val) := (lookup "Flatten" Generated.classFields).getD []

theorem list_of_keys5 (f : List (String × Val)) (k1 k2 k3 k4 k5 : String)
    (h : f.map Prod.fst = [k1, k2, k3, k4, k5]) :
    ∃ a1 a2 a3 a4 a5, f = [(k1, a1), (k2, a2), (k3, a3), (k4, a4), (k5, a5)] := by
  match f, h with
  | [(_, a1), (_, a2), (_, a3), (_, a4), (_, a5)], h =>
    simp only [List.map_cons, List.map_nil, List.cons.injEq, and_true] at h
    obtain ⟨rfl, rfl, rfl, rfl, rfl⟩ := h
    exact ⟨a1, a2, a3, a4, a5, rfl⟩

def flattenBound (a1 a2 a3 a4 a5 : Val) : List (String × Val) :=
  [("input_type", a1), ("start_dim", a2), ("end_dim", a3), ("output_type", a4), ("metadata", a5)]

/-- the constructor sees its `input_type` argument only through `parse_shape_argument`, and never
reads `output_type` -/
theorem postInit_flatten_parse (a1 a2 a3 a4 a4' a5 it : Val) (hp : parseShapeArgument a1 "input" = .ok it)
    (hit : parseShapeArgument it "input" = .ok it) :
    postInit "Flatten" (flattenBound it a2 a3 a4' a5) = postInit "Flatten" (flattenBound a1 a2 a3 a4 a5) := by
  simp only [postInit, flattenBound, lookup, String.reduceBEq, Bool.false_eq_true, if_false, beq_self_eq_true, if_true,
    Option.getD_some, hp, hit, bind, Except.bind, pure, Except.pure, List.filter, String.reduceBNe, Bool.and_self,
    Bool.and_false, Bool.and_true, Bool.false_and, Bool.true_and]

theorem postInit_flatten_form (a1 a2 a3 a4 a5 : Val) (n : Node)
    (h : postInit "Flatten" (flattenBound a1 a2 a3 a4 a5) = .ok n) :
    (∃ it ot, parseShapeArgument a1 "input" = .ok it ∧
      n = Node.mk "Flatten" [("start_dim", a2), ("end_dim", a3)] it ot a5 [] []) ∨
    n = Node.mk "Flatten" [("start_dim", a2), ("end_dim", a3)] (typeDict "input" .none) (typeDict "output" .none) a5 [] [] := by
  simp only [postInit, flattenBound, lookup, String.reduceBEq, Bool.false_eq_true, if_false, beq_self_eq_true, if_true,
    Option.getD_some, bind, Except.bind, pure, Except.pure, List.filter, String.reduceBNe, Bool.and_self,
    Bool.and_false, Bool.and_true] at h
  cases hp : parseShapeArgument a1 "input" with
  | error e => rw [hp] at h; cases h
  | ok it =>
    rw [hp] at h
    simp only at h
    repeat' split at h
    all_goals (try cases h)
    all_goals (first | (right; rfl) | (left; exact ⟨it, _, rfl, rfl⟩))

theorem postInit_flatten_none (a2 a3 a4 a5 : Val) :
    postInit "Flatten" (flattenBound (typeDict "input" .none) a2 a3 a4 a5) =
      .ok (Node.mk "Flatten" [("start_dim", a2), ("end_dim", a3)] (typeDict "input" .none) (typeDict "output" .none) a5 [] []) := by
  simp only [postInit, flattenBound, lookup, String.reduceBEq, Bool.false_eq_true, if_false, beq_self_eq_true, if_true,
    Option.getD_some, bind, Except.bind, pure, Except.pure, List.filter, String.reduceBNe, Bool.and_self,
    Bool.and_false, Bool.and_true, parseShapeArgument, typeDict, getItem]

/-- a constructor-built Flatten whose input type is a single-port dictionary round-trips exactly -/
theorem dictExact_flatten (kw : List (String × Val)) (n : Node) (h : construct "Flatten" kw = .ok n)
    (s : Val) (hs : n.inputType = typeDict "input" s) : DictExact n := by
  have hspec : lookup "Flatten" Generated.classFields = some flattenSpec := rfl
  unfold construct at h
  rw [hspec] at h
  simp only [bind, Except.bind] at h
  cases hb : bindKwargs flattenSpec kw with
  | error e => rw [hb] at h; cases h
  | ok f =>
    rw [hb] at h
    simp only at h
    have hkeys : f.map Prod.fst = flattenSpec.map Prod.fst := by
      unfold bindKwargs at hb
      split at hb
      · cases hb
      · exact (lookup_bindAll kw flattenSpec f hb (by decide)).1
    obtain ⟨a1, a2, a3, a4, a5, rfl⟩ := list_of_keys5 f _ _ _ _ _ hkeys
    have hc : Generated.whitelist.contains "Flatten" = true := by decide
    have hb2 : ∀ s, bindKwargs flattenSpec [("start_dim", a2), ("end_dim", a3), ("metadata", a5), ("input_type", typeDict "input" s)] =
        .ok (flattenBound (typeDict "input" s) a2 a3 .none a5) := fun _ => rfl
    rcases postInit_flatten_form a1 a2 a3 a4 a5 n h with ⟨it, ot, hp, rfl⟩ | rfl
    · simp only [Node.inputType] at hs
      subst hs
      refine ⟨.dict [("start_dim", a2), ("end_dim", a3), ("metadata", a5), ("type", .str "Flatten"), ("input_type", s)], ?_, ?_⟩
      · simp only [toDict, typeEntry, getItem, typeDict, lookup, beq_self_eq_true, if_true, bind, Except.bind, pure, Except.pure,
          List.cons_append, List.nil_append]
      · intro fuel
        simp only [fromDictFuel, lookup, String.reduceBEq, Bool.false_eq_true, if_false, beq_self_eq_true, if_true,
          str2NIRNode, hc, bind, Except.bind, pure, Except.pure, Py.insert, erase, Option.getD_some]
        unfold construct
        rw [hspec]
        simp only [bind, Except.bind]
        rw [hb2]
        simp only
        rw [postInit_flatten_parse a1 a2 a3 a4 .none a5 (typeDict "input" s) hp rfl]
        exact h
    · refine ⟨.dict [("start_dim", a2), ("end_dim", a3), ("metadata", a5), ("type", .str "Flatten"), ("input_type", .none)], ?_, ?_⟩
      · simp only [toDict, typeEntry, getItem, typeDict, lookup, beq_self_eq_true, if_true, bind, Except.bind, pure, Except.pure,
          List.cons_append, List.nil_append]
      · intro fuel
        simp only [fromDictFuel, lookup, String.reduceBEq, Bool.false_eq_true, if_false, beq_self_eq_true, if_true,
          str2NIRNode, hc, bind, Except.bind, pure, Except.pure, Py.insert, erase, Option.getD_some]
        unfold construct
        rw [hspec]
        simp only [bind, Except.bind]
        rw [hb2]
        simp only
        exact postInit_flatten_none a2 a3 .none a5

end NirVerif.Lemmas
