import NirVerif.Model.Node
import NirVerif.Lemmas.Dict
/-! Facts about `postInit` proved by exhausting its branches. -/
namespace NirVerif.Lemmas
open NirVerif NirVerif.Py NirVerif.Model

theorem postInit_kind (kind : String) (f : List (String × Val)) (n : Node) (h : postInit kind f = .ok n) :
    n.kind = kind := by
  unfold postInit at h
  simp only [bind, Except.bind, pure, Except.pure] at h
  repeat' split at h
  all_goals (try cases h)
  all_goals (first | rfl | skip)

theorem postInit_leaf (kind : String) (f : List (String × Val)) (n : Node) (h : postInit kind f = .ok n) :
    n.children = [] ∧ n.edges = [] ∧ n.metadata = (lookup "metadata" f).getD (.dict []) := by
  unfold postInit at h
  simp only [bind, Except.bind, pure, Except.pure] at h
  repeat' split at h
  all_goals (try cases h)
  all_goals (first | exact ⟨rfl, rfl, rfl⟩ | skip)

def Node.setMeta (n : Node) (m : Val) : Node :=
  match n with | Node.mk k f i o _ c e => Node.mk k f i o m c e

theorem filter_insert_meta (m : Val) (f : List (String × Val)) :
    (Py.insert "metadata" m f).filter (fun kv => kv.1 != "input_type" && kv.1 != "output_type" && kv.1 != "metadata")
      = f.filter (fun kv => kv.1 != "input_type" && kv.1 != "output_type" && kv.1 != "metadata") := by
  induction f with
  | nil => simp [Py.insert]
  | cons kv rest ih =>
    obtain ⟨k0, v0⟩ := kv
    by_cases h : (k0 == "metadata") = true
    · have : k0 = "metadata" := by simpa using h
      subst this
      simp [Py.insert]
    · have h' : (k0 == "metadata") = false := by simpa using h
      simp only [Py.insert, h', Bool.false_eq_true, if_false, List.filter_cons, ih]

/-- **Construction-time types do not depend on metadata**: attaching / changing metadata
changes the constructed node in its `metadata` field only. -/
theorem postInit_meta (kind : String) (f : List (String × Val)) (m : Val) :
    postInit kind (Py.insert "metadata" m f) = (postInit kind f).map (fun n => Node.setMeta n m) := by
  have hget : ∀ k : String, k ≠ "metadata" → lookup k (Py.insert "metadata" m f) = lookup k f :=
    fun k hk => lookup_insert_ne _ _ _ _ hk
  have hmd : lookup "metadata" (Py.insert "metadata" m f) = some m := lookup_insert_self _ _ _
  unfold postInit
  simp only [filter_insert_meta, hmd, Option.getD_some]
  have e1 := hget "weight" (by decide); have e2 := hget "scale" (by decide); have e3 := hget "threshold" (by decide)
  have e4 := hget "delay" (by decide); have e5 := hget "r" (by decide); have e6 := hget "v_threshold" (by decide)
  have e7 := hget "tau" (by decide); have e8 := hget "v_leak" (by decide); have e9 := hget "tau_syn" (by decide)
  have e10 := hget "tau_mem" (by decide); have e11 := hget "w_in" (by decide); have e12 := hget "padding" (by decide)
  have e13 := hget "input_shape" (by decide); have e14 := hget "dilation" (by decide); have e15 := hget "stride" (by decide)
  have e16 := hget "input_type" (by decide); have e17 := hget "start_dim" (by decide); have e18 := hget "end_dim" (by decide)
  have e19 := hget "output_type" (by decide)
  simp only [e1, e2, e3, e4, e5, e6, e7, e8, e9, e10, e11, e12, e13, e14, e15, e16, e17, e18, e19]
  simp only [bind, Except.bind, pure, Except.pure, Except.map]
  repeat' split
  all_goals (first | rfl | (rename_i hh; subst hh; rfl) | (rename_i hh; cases hh; done) | (simp_all [Node.setMeta]; done) | skip)
  all_goals (rename_i hh; first | (cases hh; rfl) | skip)


theorem construct_kind (kind : String) (kw : List (String × Val)) (n : Node) (h : construct kind kw = .ok n) :
    n.kind = kind ∧ n.children = [] ∧ n.edges = [] := by
  unfold construct at h
  split at h
  · cases h
  · simp only [bind, Except.bind] at h
    split at h
    · cases h
    · exact ⟨postInit_kind _ _ _ h, (postInit_leaf _ _ _ h).1, (postInit_leaf _ _ _ h).2.1⟩

end NirVerif.Lemmas
