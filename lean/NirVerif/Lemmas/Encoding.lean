import NirVerif.Py.Value
import NirVerif.Spec.Typing
/-! Two's-complement encode/decode round trips for every integer dtype. -/
namespace NirVerif.Lemmas
open NirVerif.Py

theorem leNat_natLE (w n : Nat) : leNat (natLE w n) = n % 256 ^ w := by
  induction w generalizing n with
  | zero => simp [natLE, leNat, Nat.mod_one]
  | succ w ih =>
    simp only [natLE, leNat, ih]
    have h1 : (UInt8.ofNat (n % 256)).toNat = n % 256 := by
      simp [UInt8.toNat_ofNat, Nat.mod_mod]
    rw [h1, Nat.pow_succ, Nat.mul_comm (256 ^ w) 256, Nat.mod_mul]

theorem length_natLE (w n : Nat) : (natLE w n).length = w := by
  induction w generalizing n with
  | zero => rfl
  | succ w ih => simp [natLE, ih]


theorem pow256 (s : Nat) : 256 ^ s = 2 ^ (8 * s) := by
  rw [show (256 : Nat) = 2 ^ 8 by rfl, ← Nat.pow_mul]

theorem decode_core (size : Nat) (big : Bool) (kind : DKind) (i : Int) (P : Nat) (hPpos : 0 < P)
    (hM : 2 ^ (8 * size) = 2 * P) (hP : 2 ^ (8 * size - 1) = P)
    (hcase : (kind = .int ∧ -(P : Int) ≤ i ∧ i < P) ∨ (kind = .uint ∧ 0 ≤ i ∧ i < ((2 * P : Nat) : Int))) :
    decodeInt { kind := kind, size := size, big := big } (encodeInt { kind := kind, size := size, big := big } i) = i := by
  have hMi : ((2 : Int) ^ (8 * size)) = ((2 * P : Nat) : Int) := by
    rw [← hM]; push_cast; rfl
  unfold decodeInt encodeInt
  simp only
  have hle : ∀ l : Bytes, (if big = true then (if big = true then l.reverse else l).reverse else (if big = true then l.reverse else l)) = l := by
    intro l; cases big <;> simp
  rw [hle, leNat_natLE, pow256, hM, hP, hMi]
  rcases hcase with ⟨rfl, hlo, hhi⟩ | ⟨rfl, hlo, hhi⟩
  · by_cases hneg : i < 0
    · have hmod : i % ((2 * P : Nat) : Int) = i + (2 * P : Nat) := by
        rw [← Int.add_emod_right]; exact Int.emod_eq_of_lt (by push_cast; omega) (by push_cast; omega)
      rw [hmod]
      have hn : (i + ((2 * P : Nat) : Int)).toNat % (2 * P) = (i + ((2 * P : Nat) : Int)).toNat := by
        apply Nat.mod_eq_of_lt; push_cast; omega
      rw [hn]
      have hge : (i + ((2 * P : Nat) : Int)).toNat ≥ P := by push_cast; omega
      simp only [beq_self_eq_true, Bool.true_and, hge, decide_true, if_true]
      push_cast; omega
    · have hmod : i % ((2 * P : Nat) : Int) = i := Int.emod_eq_of_lt (by omega) (by push_cast; omega)
      rw [hmod]
      have hn : i.toNat % (2 * P) = i.toNat := by apply Nat.mod_eq_of_lt; omega
      rw [hn]
      have hlt : ¬ i.toNat ≥ P := by omega
      simp only [beq_self_eq_true, Bool.true_and, hlt, decide_false, Bool.false_eq_true, if_false]
      omega
  · have hmod : i % ((2 * P : Nat) : Int) = i := Int.emod_eq_of_lt hlo hhi
    rw [hmod]
    have hn : i.toNat % (2 * P) = i.toNat := by apply Nat.mod_eq_of_lt; push_cast at hhi; omega
    rw [hn]
    have : (DKind.uint == DKind.int) = false := by decide
    simp only [this, Bool.false_and, Bool.false_eq_true, if_false]
    omega

/-- two's-complement encoding followed by decoding is the identity on integers that fit the
dtype — any width, either signedness, either byte order -/
theorem decodeInt_encodeInt (dt : DType) (i : Int) (hs : 1 ≤ dt.size) (hfit : fitsInt dt i = true) :
    decodeInt dt (encodeInt dt i) = i := by
  obtain ⟨P, hP⟩ : ∃ P : Nat, 2 ^ (8 * dt.size - 1) = P := ⟨_, rfl⟩
  have hM : 2 ^ (8 * dt.size) = 2 * P := by
    rw [← hP, ← Nat.pow_succ']; congr 1; omega
  have hPpos : 0 < P := by rw [← hP]; exact Nat.pow_pos (by decide)
  have hPi : ((2 : Int) ^ (8 * dt.size - 1)) = (P : Int) := by rw [← hP]; push_cast; rfl
  have hMi : ((2 : Int) ^ (8 * dt.size)) = ((2 * P : Nat) : Int) := by rw [← hM]; push_cast; rfl
  cases dt with
  | mk kind size big =>
    simp only at hP hM hPi hMi hs
    apply decode_core size big kind i P hPpos hM hP
    unfold fitsInt at hfit
    simp only at hfit
    cases kind <;> simp only [Bool.and_eq_true, decide_eq_true_eq, hPi, hMi] at hfit
    · exact Or.inl ⟨rfl, hfit.1, hfit.2⟩
    · exact Or.inr ⟨rfl, hfit.1, hfit.2⟩
    all_goals exact absurd hfit (by decide)


theorem chunksAux_flatten (w : Nat) (hw : 1 ≤ w) (ls : List Bytes) (hl : ∀ l ∈ ls, l.length = w) (fuel : Nat)
    (hf : ls.length ≤ fuel) : chunksAux w fuel ls.flatten = ls := by
  induction ls generalizing fuel with
  | nil =>
    cases fuel with
    | zero => rfl
    | succ f => simp [chunksAux]
  | cons l rest ih =>
    cases fuel with
    | zero => simp at hf
    | succ f =>
      have hll : l.length = w := hl l List.mem_cons_self
      have hcond : ¬ (w = 0 ∨ (l ++ rest.flatten).length < w) := by
        simp [hll]; omega
      simp only [List.flatten_cons, chunksAux, hcond, if_false]
      have h1 : (l ++ rest.flatten).take w = l := by rw [← hll]; simp
      have h2 : (l ++ rest.flatten).drop w = rest.flatten := by rw [← hll]; simp
      rw [h1, h2, ih (fun x hx => hl x (List.mem_cons_of_mem _ hx)) f (by simpa using hf)]

theorem length_encodeInt (dt : DType) (i : Int) : (encodeInt dt i).length = dt.size := by
  unfold encodeInt
  simp only
  split <;> simp [length_natLE]

/-- an integer vector survives encoding in *any* integer dtype that holds its entries -/
theorem decodeInts_encodeInts (dt : DType) (xs : List Int) (hs : 1 ≤ dt.size)
    (hfit : ∀ x ∈ xs, fitsInt dt x = true) : decodeInts dt (encodeInts dt xs) = xs := by
  unfold decodeInts encodeInts chunks
  rw [chunksAux_flatten dt.size hs (xs.map (encodeInt dt))
    (by intro l hl; obtain ⟨x, _, rfl⟩ := List.mem_map.mp hl; exact length_encodeInt dt x)]
  · rw [List.map_map]
    conv => rhs; rw [← List.map_id xs]
    apply List.map_congr_left
    intro x hx
    exact decodeInt_encodeInt dt x hs (hfit x hx)
  · simp only [List.length_map, List.length_flatten, List.map_map]
    have : ∀ l : List Int, l.length ≤ (l.map (List.length ∘ encodeInt dt)).sum := by
      intro l
      induction l with
      | nil => simp
      | cons a as ih => simp [length_encodeInt]; omega
    exact this xs

end NirVerif.Lemmas
