import NirVerif.Lemmas.EndToEnd
import NirVerif.Lemmas.Construct
/-
  A node built by a constructor is what that constructor builds from the node's own fields:
  `cls(**fields_of(n), metadata=n.metadata) == n`.
-/
namespace NirVerif.Lemmas
open NirVerif NirVerif.Py NirVerif.Model

def isPlainKey (k : String) : Bool := k != "input_type" && k != "output_type" && k != "metadata"

def plainOf (f : List (String × Val)) : List (String × Val) := f.filter fun kv => isPlainKey kv.1

theorem lookup_filter_key {α} (p : String → Bool) (k : String) (d : List (String × α)) :
    lookup k (d.filter fun kv => p kv.1) = if p k then lookup k d else none := by
  induction d with
  | nil => simp [lookup]
  | cons kv rest ih =>
    obtain ⟨k0, v0⟩ := kv
    by_cases hp : p k0 = true
    · simp only [List.filter_cons, hp, if_true, lookup]
      by_cases h0 : (k0 == k) = true
      · have e : k0 = k := by simpa using h0
        subst e; simp [hp]
      · simp only [h0, Bool.false_eq_true, if_false]; exact ih
    · have hp' : p k0 = false := by simpa using hp
      simp only [List.filter_cons, hp', Bool.false_eq_true, if_false, lookup, ih]
      by_cases h0 : (k0 == k) = true
      · have e : k0 = k := by simpa using h0
        subst e; simp [hp']
      · simp [h0]

/-- every field of the spec is bound, and (spec names being distinct) found under its name -/
theorem lookup_bindAll (kw : List (String × Val)) (spec : List (String × Option Val)) (f : List (String × Val))
    (h : bindAll kw spec = .ok f) (hn : (spec.map Prod.fst).Nodup) :
    f.map Prod.fst = spec.map Prod.fst ∧
    ∀ p ∈ spec, ∃ v, bindOne kw p = .ok (p.1, v) ∧ lookup p.1 f = some v := by
  induction spec generalizing f with
  | nil =>
    simp only [bindAll, Except.ok.injEq] at h
    subst h
    exact ⟨rfl, fun p hp => by cases hp⟩
  | cons p rest ih =>
    simp only [bindAll] at h
    cases h1 : bindOne kw p with
    | error e => rw [h1] at h; cases h
    | ok x =>
      rw [h1] at h
      cases h2 : bindAll kw rest with
      | error e => rw [h2] at h; cases h
      | ok xs =>
        rw [h2] at h
        simp only [Except.ok.injEq] at h
        subst h
        simp only [List.map_cons, List.nodup_cons] at hn
        obtain ⟨ih1, ih2⟩ := ih xs h2 hn.2
        have hx : x.1 = p.1 := by
          unfold bindOne at h1
          split at h1 <;> first | (cases h1; rfl) | cases h1
        refine ⟨by simp [ih1, hx], ?_⟩
        intro q hq
        rcases List.mem_cons.mp hq with rfl | hq
        · refine ⟨x.2, ?_, ?_⟩
          · rw [h1, ← hx]
          · simp [lookup, hx]
        · obtain ⟨v, hv1, hv2⟩ := ih2 q hq
          refine ⟨v, hv1, ?_⟩
          have hne : (x.1 == q.1) = false := by
            rw [hx]
            have : p.1 ≠ q.1 := fun e => hn.1 (by rw [e]; exact List.mem_map_of_mem hq)
            simpa using this
          simp only [lookup, hne, Bool.false_eq_true, if_false]
          exact hv2

/-- **Re-binding a bound keyword list**: binding the plain fields together with the metadata gives
the very same bound list, provided the derived types were not passed explicitly the first time -/
theorem rebind (kw : List (String × Val)) (spec : List (String × Option Val)) (f : List (String × Val))
    (h : bindKwargs spec kw = .ok f) (hn : (spec.map Prod.fst).Nodup)
    (hmeta : hasKey "metadata" spec = true)
    (hnot : lookup "input_type" kw = none ∧ lookup "output_type" kw = none) :
    bindKwargs spec (plainOf f ++ [("metadata", (lookup "metadata" f).getD (.dict []))]) = .ok f := by
  unfold bindKwargs at h
  split at h
  · cases h
  · obtain ⟨hkeys, hall⟩ := lookup_bindAll kw spec f h hn
    -- lookups in the re-assembled keyword list
    have hlk : ∀ k, lookup k (plainOf f ++ [("metadata", (lookup "metadata" f).getD (.dict []))]) =
        if isPlainKey k then lookup k f else if k = "metadata" then some ((lookup "metadata" f).getD (.dict [])) else none := by
      intro k
      rw [lookup_append]
      unfold plainOf
      rw [lookup_filter_key isPlainKey]
      by_cases hp : isPlainKey k = true
      · simp only [hp, if_true]
        cases hl : lookup k f with
        | some v => rfl
        | none =>
          have : k ≠ "metadata" := by
            intro e; subst e; simp [isPlainKey] at hp
          have e : ("metadata" == k) = false := by simpa using (Ne.symm this)
          simp [lookup, e]
      · have hp' : isPlainKey k = false := by simpa using hp
        simp only [hp', Bool.false_eq_true, if_false, Option.none_or, lookup]
        by_cases hm : k = "metadata"
        · subst hm; simp
        · have e : ("metadata" == k) = false := by simpa using (Ne.symm hm)
          simp [e, hm]
    unfold bindKwargs
    have hany : (plainOf f ++ [("metadata", (lookup "metadata" f).getD (.dict []))]).any
        (fun kv => !(hasKey kv.1 spec)) = false := by
      rw [Bool.eq_false_iff]
      intro hc
      obtain ⟨k, hs, hk⟩ := (any_keys _ (fun k => !(hasKey k spec))).mp hc
      rw [hlk] at hs
      have hin : k ∈ spec.map Prod.fst := by
        by_cases hp : isPlainKey k = true
        · simp only [hp, if_true] at hs
          rw [← hkeys]; exact (lookup_isSome_iff_mem k f).mp hs
        · have hp' : isPlainKey k = false := by simpa using hp
          simp only [hp', Bool.false_eq_true, if_false] at hs
          by_cases hm : k = "metadata"
          · subst hm; exact (lookup_isSome_iff_mem _ spec).mp hmeta
          · simp [hm] at hs
      have : hasKey k spec = true := lookup_isSome_of_mem k spec hin
      simp [this] at hk
    rw [hany]
    simp only [Bool.false_eq_true, if_false]
    rw [bindAll_congr _ kw spec, h]
    intro p hp
    obtain ⟨v, hv1, hv2⟩ := hall p hp
    rw [hv1]
    unfold bindOne
    rw [hlk]
    by_cases hpl : isPlainKey p.1 = true
    · simp [hpl, hv2]
    · have hpl' : isPlainKey p.1 = false := by simpa using hpl
      simp only [hpl', Bool.false_eq_true, if_false]
      by_cases hm : p.1 = "metadata"
      · simp [hm] at hv2 ⊢
        simp [hv2]
      · simp only [hm, if_false]
        -- a derived-type field: not passed the first time either
        have hk : lookup p.1 kw = none := by
          have : p.1 = "input_type" ∨ p.1 = "output_type" := by
            simp only [isPlainKey, bne_iff_ne, ne_eq, Bool.and_eq_false_imp, Bool.and_eq_true, decide_eq_true_eq,
              not_and, Bool.not_eq_true'] at hpl'
            by_cases h1 : p.1 = "input_type"
            · exact Or.inl h1
            · by_cases h2 : p.1 = "output_type"
              · exact Or.inr h2
              · simp_all [isPlainKey]
          rcases this with e | e <;> rw [e]
          · exact hnot.1
          · exact hnot.2
        unfold bindOne at hv1
        rw [hk] at hv1
        exact hv1

/-- kinds whose constructor stores its parameters unchanged -/
def simpleKinds : List String :=
  ["Affine", "Linear", "Scale", "Threshold", "Delay", "I", "IF", "LI", "LIF", "SumPool2d", "AvgPool2d", "Conv1d"]

theorem postInit_simple (kind : String) (f : List (String × Val)) (n : Node) (hk : kind ∈ simpleKinds)
    (h : postInit kind f = .ok n) : n.fields = plainOf f := by
  simp only [simpleKinds, List.mem_cons, List.mem_nil_iff, or_false] at hk
  unfold postInit at h
  simp only [bind, Except.bind, pure, Except.pure] at h
  rcases hk with rfl | rfl | rfl | rfl | rfl | rfl | rfl | rfl | rfl | rfl | rfl | rfl
  all_goals (simp only at h)
  all_goals (repeat' split at h)
  all_goals (try cases h)
  all_goals (first | rfl | skip)

/-- the generated field table: field names of every class are distinct and include `metadata` -/
theorem spec_facts : ∀ ks ∈ Generated.classFields, (ks.2.map Prod.fst).Nodup ∧ hasKey "metadata" ks.2 = true := by
  decide +kernel

def isEmptyDictDefault : Option (Option Val) → Bool
  | some (some (.dict [])) => true
  | _ => false

/-- … `type` is never a field name, and the default of `metadata` is the empty dictionary -/
theorem spec_facts2 : ∀ ks ∈ Generated.classFields, hasKey "type" ks.2 = false ∧
    isEmptyDictDefault (lookup "metadata" ks.2) = true := by
  decide +kernel

theorem eq_of_isEmptyDictDefault (x : Option (Option Val)) (h : isEmptyDictDefault x = true) :
    x = some (some (.dict [])) := by
  unfold isEmptyDictDefault at h
  split at h
  · rfl
  · cases h

theorem mem_of_lookup' {α} (k : String) (v : α) (d : List (String × α)) (h : lookup k d = some v) : (k, v) ∈ d := by
  induction d with
  | nil => simp [lookup] at h
  | cons kv rest ih =>
    obtain ⟨k0, v0⟩ := kv
    by_cases hk : (k0 == k) = true
    · have hk' : k0 = k := by simpa using hk
      simp only [lookup, hk, if_true, Option.some.injEq] at h
      subst hk' h; exact List.mem_cons_self
    · have hk' : (k0 == k) = false := by simpa using hk
      simp only [lookup, hk', Bool.false_eq_true, if_false] at h
      exact List.mem_cons_of_mem _ (ih h)

theorem lookup_of_mem_nodup' {α} (d : List (String × α)) (hnd : (d.map Prod.fst).Nodup) (k : String) (v : α)
    (hm : (k, v) ∈ d) : lookup k d = some v := by
  induction d with
  | nil => cases hm
  | cons kv rest ih =>
    obtain ⟨k0, v0⟩ := kv
    simp only [List.map_cons, List.nodup_cons] at hnd
    rcases List.mem_cons.mp hm with h | h
    · cases h; simp [lookup]
    · have hne : (k0 == k) = false := by
        have : k0 ≠ k := fun e => hnd.1 (by rw [e]; exact List.mem_map_of_mem h)
        simpa using this
      simp only [lookup, hne, Bool.false_eq_true, if_false]
      exact ih hnd.2 h

/-- **A constructed node is the constructor applied to its own fields** (classes that store
their parameters unchanged; derived types not passed explicitly). -/
theorem construct_idem (kind : String) (kw : List (String × Val)) (n : Node) (hk : kind ∈ simpleKinds)
    (h : construct kind kw = .ok n)
    (hnot : lookup "input_type" kw = none ∧ lookup "output_type" kw = none) :
    construct kind (n.fields ++ [("metadata", n.metadata)]) = .ok n := by
  unfold construct at h ⊢
  cases hspec : lookup kind Generated.classFields with
  | none => rw [hspec] at h; cases h
  | some spec =>
    rw [hspec] at h
    simp only [bind, Except.bind] at h ⊢
    cases hb : bindKwargs spec kw with
    | error e => rw [hb] at h; cases h
    | ok f =>
      rw [hb] at h
      simp only at h
      obtain ⟨hn, hm⟩ := spec_facts (kind, spec) (mem_of_lookup' _ _ _ hspec)
      rw [postInit_simple kind f n hk h, (postInit_leaf kind f n h).2.2, rebind kw spec f hb hn hm hnot]
      exact h

theorem simple_generic : ∀ k ∈ simpleKinds, k ∈ Generated.whitelist ∧
    k ≠ "NIRGraph" ∧ k ≠ "Input" ∧ k ≠ "Output" ∧ k ≠ "Flatten" := by decide

/-- the stored fields of a constructed node never contain `type` or `metadata` -/
theorem construct_fields_clean (kind : String) (kw : List (String × Val)) (n : Node) (hk : kind ∈ simpleKinds)
    (h : construct kind kw = .ok n) : lookup "type" n.fields = none ∧ lookup "metadata" n.fields = none := by
  unfold construct at h
  cases hspec : lookup kind Generated.classFields with
  | none => rw [hspec] at h; cases h
  | some spec =>
    rw [hspec] at h
    simp only [bind, Except.bind] at h
    cases hb : bindKwargs spec kw with
    | error e => rw [hb] at h; cases h
    | ok f =>
      rw [hb] at h
      simp only at h
      obtain ⟨hn, _⟩ := spec_facts (kind, spec) (mem_of_lookup' _ _ _ hspec)
      obtain ⟨hnt, _⟩ := spec_facts2 (kind, spec) (mem_of_lookup' _ _ _ hspec)
      rw [postInit_simple kind f n hk h]
      unfold plainOf
      rw [lookup_filter_key isPlainKey, lookup_filter_key isPlainKey]
      refine ⟨?_, by simp [isPlainKey]⟩
      have e : isPlainKey "type" = true := by decide
      simp only [e, if_true]
      unfold bindKwargs at hb
      split at hb
      · cases hb
      · obtain ⟨hkeys, _⟩ := lookup_bindAll kw spec f hb hn
        apply lookup_eq_none_of_not_mem
        rw [hkeys]
        intro hm
        have := lookup_isSome_of_mem "type" spec hm
        simp only [hasKey] at hnt
        rw [hnt] at this; cases this

/-- passing the empty metadata explicitly is the same as leaving it to the default -/
theorem construct_meta_default (kind : String) (fields : List (String × Val)) (hnm : lookup "metadata" fields = none) :
    construct kind (fields ++ [("metadata", Val.dict [])]) = construct kind fields := by
  unfold construct
  cases hspec : lookup kind Generated.classFields with
  | none => rfl
  | some spec =>
    simp only
    obtain ⟨_, hm⟩ := spec_facts (kind, spec) (mem_of_lookup' _ _ _ hspec)
    have hd := eq_of_isEmptyDictDefault _ (spec_facts2 (kind, spec) (mem_of_lookup' _ _ _ hspec)).2
    simp only at hd
    have hlk : ∀ k, lookup k (fields ++ [("metadata", Val.dict [])]) =
        if k = "metadata" then some (.dict []) else lookup k fields := by
      intro k
      rw [lookup_append]
      by_cases hk : k = "metadata"
      · subst hk; simp [hnm, lookup]
      · have e : ("metadata" == k) = false := by simpa using (Ne.symm hk)
        cases lookup k fields <;> simp [lookup, e, hk]
    rw [bindKwargs_congr _ fields spec]
    · constructor
      · rintro ⟨k, hs, hk⟩
        rw [hlk] at hs
        by_cases hkm : k = "metadata"
        · subst hkm; rw [hm] at hk; cases hk
        · simp only [hkm, if_false] at hs; exact ⟨k, hs, hk⟩
      · rintro ⟨k, hs, hk⟩
        refine ⟨k, ?_, hk⟩
        rw [hlk]
        by_cases hkm : k = "metadata"
        · subst hkm; rfl
        · simp only [hkm, if_false]; exact hs
    · intro p hp
      unfold bindOne
      rw [hlk]
      by_cases hkm : p.1 = "metadata"
      · -- the default of `metadata` is the empty dictionary
        have hp2 : p.2 = some (.dict []) := by
          obtain ⟨hn, _⟩ := spec_facts (kind, spec) (mem_of_lookup' _ _ _ hspec)
          have : lookup p.1 spec = some p.2 := lookup_of_mem_nodup' spec hn p.1 p.2 hp
          rw [hkm, hd] at this
          exact (Option.some.inj this).symm
        simp [hkm, hnm, hp2]
      · simp only [hkm, if_false]

end NirVerif.Lemmas
