import NirVerif.Lemmas.ConvReading
/-
  `calculate_conv_output` over the value universe: it reads each of its five arguments only
  through `_index_tuple` (and `len()` of the input shape), so scalar / tuple / list / ndarray
  forms holding the same integers are interchangeable; on integer tuples it is the generated
  per-axis formula applied axis by axis.
-/
namespace NirVerif.Lemmas
open NirVerif NirVerif.Py NirVerif.Model

/-- `v` and `w` agree under `_index_tuple` on the first `n` axes -/
def SameIdx (n : Nat) (v w : Val) : Prop := ∀ i, i < n → indexTuple v i = indexTuple w i

/-- neither the string `'same'` nor `'valid'` (padding given numerically) -/
def NotStr (v : Val) : Prop := ∀ s, v ≠ .str s

theorem sameIdx_of_reading (v w : Val) (xs : List Int) (hv : IntReading v xs) (hw : IntReading w xs) :
    SameIdx xs.length v w := fun i hi => by rw [hv.index i hi, hw.index i hi]

theorem sameIdx_scalar (v : Val) (a : Int) (n : Nat) (h : Val.asInt? v = some a) :
    SameIdx n v (.tuple (List.replicate n (.int a))) := by
  intro i hi
  rw [indexTuple_scalar v a h i]
  simp [indexTuple, List.getElem?_replicate, hi, Val.asInt?]

theorem isSame_notStr (p : Val) (h : NotStr p) : isSamePadding p = false := by
  cases p <;> first | rfl | (rename_i s; exact absurd rfl (h s))

theorem valid_notStr (p : Val) (n : Nat) (h : NotStr p) : normalisePadding n p = p := by
  cases p <;> first | rfl | (rename_i s; exact absurd rfl (h s))

/-- a rank-1 integer ndarray (any width, signedness, byte order) reads as the integers it holds -/
theorem reading_arr (dt : DType) (n : Nat) (d : Bytes) (hint : dt.isInteger = true)
    (hw : n = (decodeInts dt d).length) : IntReading (.arr dt [n] d) (decodeInts dt d) where
  notInt := rfl
  len := by simp [Val.len?, hw]
  index := by
    intro i hi
    have hi' : i < n := by rw [hw]; exact hi
    simp [indexTuple, hi', hint, List.getD, hi]

theorem convAxisVal_congr5 (v v' p p' d d' k k' s s' : Val) (i : Nat)
    (hv : indexTuple v i = indexTuple v' i) (hp : indexTuple p i = indexTuple p' i)
    (hd : indexTuple d i = indexTuple d' i) (hk : indexTuple k i = indexTuple k' i)
    (hs : indexTuple s i = indexTuple s' i) (hps : NotStr p) (hps' : NotStr p') :
    convAxisVal v p d k s i = convAxisVal v' p' d' k' s' i := by
  simp only [convAxisVal, isSame_notStr p hps, isSame_notStr p' hps', hv, hp, hd, hk, hs]

/-- **Container forms are interchangeable** (numeric padding): any two argument tuples with the
same integer readings give the same result — scalars, tuples, lists, ndarrays of any integer
dtype, Python or numpy integers alike. -/
theorem calculateConvOutput_forms (v v' p p' d d' k k' s s' : Val) (xs : List Int)
    (hv : IntReading v xs) (hv' : IntReading v' xs)
    (hp : SameIdx xs.length p p') (hd : SameIdx xs.length d d') (hk : SameIdx xs.length k k')
    (hs : SameIdx xs.length s s') (hps : NotStr p) (hps' : NotStr p') :
    calculateConvOutput v p d k s = calculateConvOutput v' p' d' k' s' := by
  simp only [calculateConvOutput, hv.notInt, hv'.notInt, hv.len, hv'.len]
  simp only [bind, Except.bind, pure, Except.pure, valid_notStr p _ hps, valid_notStr p' _ hps']
  apply mapM_congr_range
  intro i hi
  have hi' : i < xs.length := by simpa using hi
  exact convAxisVal_congr5 _ _ _ _ _ _ _ _ _ _ i (by rw [hv.index i hi', hv'.index i hi'])
    (hp i hi') (hd i hi') (hk i hi') (hs i hi') hps hps'

theorem mapM_ok_range {ε α : Type} (f : Nat → Except ε α) (g : Nat → α) (l : List Nat)
    (h : ∀ i ∈ l, f i = .ok (g i)) : l.mapM f = .ok (l.map g) := by
  induction l with
  | nil => rfl
  | cons a as ih =>
    simp only [List.mapM_cons, List.map_cons]
    rw [h a List.mem_cons_self, ih (fun i hi => h i (List.mem_cons_of_mem _ hi))]
    rfl

theorem indexTuple_ints (xs : List Int) (i : Nat) (hi : i < xs.length) :
    indexTuple (.tuple (xs.map Val.int)) i = .ok (.int (xs.getD i 0)) := by
  have := (reading_tuple _ xs (mapM_asInt_ints xs)).index i hi
  rw [this]
  simp [List.getD, hi]

/-- on integer tuples of equal length with non-zero strides, `calculate_conv_output` is the
generated per-axis formula, axis by axis -/
theorem calculateConvOutput_ints (ns ps ds ks ss : List Int)
    (hp : ps.length = ns.length) (hd : ds.length = ns.length) (hk : ks.length = ns.length) (hs : ss.length = ns.length)
    (hnz : ∀ i, i < ns.length → ss.getD i 0 ≠ 0) :
    calculateConvOutput (.tuple (ns.map Val.int)) (.tuple (ps.map Val.int)) (.tuple (ds.map Val.int))
        (.tuple (ks.map Val.int)) (.tuple (ss.map Val.int)) =
      .ok ((List.range ns.length).map fun i =>
        Generated.convAxis (ns.getD i 0) (ps.getD i 0) (ds.getD i 0) (ks.getD i 0) (ss.getD i 0)) := by
  simp only [calculateConvOutput, Val.asInt?, Val.len?, List.length_map, normalisePadding]
  simp only [bind, Except.bind, pure, Except.pure]
  apply mapM_ok_range
  intro i hi
  have hi' : i < ns.length := by simpa using hi
  simp only [convAxisVal, isSamePadding, Bool.false_eq_true, if_false,
    indexTuple_ints ns i hi', indexTuple_ints ps i (by omega), indexTuple_ints ds i (by omega),
    indexTuple_ints ks i (by omega), indexTuple_ints ss i (by omega), bind, Except.bind, Idx.toInt,
    hnz i hi', if_false]

/-- `'same'` keeps the spatial size, whatever the other arguments -/
theorem calculateConvOutput_same (v d k s : Val) (xs : List Int) (hv : IntReading v xs) :
    calculateConvOutput v (.str "same") d k s = .ok xs := by
  simp only [calculateConvOutput, hv.notInt, hv.len, normalisePadding]
  have e : ("same" == "valid") = false := by decide
  simp only [bind, Except.bind, pure, Except.pure, e, Bool.false_eq_true, if_false]
  rw [mapM_ok_range _ (fun i => xs.getD i 0)]
  · congr 1
    apply List.ext_getElem
    · simp
    · intro i h1 h2
      simp [List.getD, h2]
  · intro i hi
    have hi' : i < xs.length := by simpa using hi
    have e2 : isSamePadding (.str "same") = true := by decide
    simp only [convAxisVal, e2, if_true, hv.index i hi', bind, Except.bind, Idx.toInt]
    simp [List.getD, hi']

/-- `'valid'` is zero padding -/
theorem calculateConvOutput_valid (v d k s : Val) (xs : List Int) (hv : IntReading v xs) :
    calculateConvOutput v (.str "valid") d k s =
      calculateConvOutput v (.list (List.replicate xs.length (.int 0))) d k s := by
  have e : ("valid" == "valid") = true := by decide
  simp only [calculateConvOutput, hv.notInt, hv.len, normalisePadding, e, if_true]
  rfl

end NirVerif.Lemmas
