import NirVerif.Model.Graph
import NirVerif.Lemmas.Dict
namespace NirVerif.Lemmas
open NirVerif NirVerif.Py NirVerif.Model

/-! ## generic work-list invariant -/

theorem workList_inv {σ ε : Type} (edges : List Edge) (step : σ → String → String → σ × Option ε)
    (P : σ → Prop) (hstep : ∀ st pre post, P st → P (step st pre post).1)
    (st : σ) (stack : List {e : Edge // e ∈ edges}) (seen : List String) (h : P st) :
    P (workList edges step st stack seen).1 := by
  fun_induction workList edges step st stack seen with
  | case1 st seen => exact h
  | case2 st seen pre post hmem rest st' e hs =>
    have := hstep st pre post h
    rw [hs] at this; exact this
  | case3 st seen pre post hmem rest st' hs ih =>
    apply ih
    have := hstep st pre post h
    rw [hs] at this; exact this

/-! ## what one loop body may change on the successor node -/

/-- `n` is `p` up to types and, for a Conv whose output type was undefined, `input_shape`. -/
def NodeStep (p n : Node) : Prop :=
  n.kind = p.kind ∧ n.metadata = p.metadata ∧ n.children = p.children ∧ n.edges = p.edges ∧
  (n.fields = p.fields ∨
    (typeUndefined p.outputType = true ∧ (p.kind = "Conv1d" ∨ p.kind = "Conv2d") ∧
      ∃ v, n.fields = Py.insert "input_shape" v p.fields)) ∧
  (typeUndefined p.outputType = false → p.kind ≠ "Output" → n.outputType = p.outputType)

theorem NodeStep.refl (p : Node) : NodeStep p p := ⟨rfl, rfl, rfl, rfl, Or.inl rfl, fun _ _ => rfl⟩


theorem inferInput_form (pre post post1 : Node) (h : inferInput pre post = .ok post1) :
    ∃ t, post1 = post.setInputType t := by
  unfold inferInput at h
  split at h
  · cases h
  · cases h; cases post; exact ⟨_, rfl⟩
  · split at h
    · cases h
    · cases h; exact ⟨_, rfl⟩

theorem mirrorOutput_form (post1 post2 : Node) (h : mirrorOutput post1 = .ok post2) :
    post2 = post1 ∨ (post1.kind = "Output" ∧ ∃ t, post2 = post1.setOutputType t) := by
  simp only [mirrorOutput, bind, Except.bind, pure, Except.pure] at h
  split at h
  · rename_i hk
    split at h
    · cases h
    · cases h; right; exact ⟨by simpa [Node.isKind] using hk, _, rfl⟩
  · cases h; left; rfl

theorem inferConv_form (p : Node) :
    (inferConv p).1 = p ∨ (∃ v, (inferConv p).1 = p.setField "input_shape" v) ∨
      (∃ v t, (inferConv p).1 = (p.setField "input_shape" v).setOutputType t) := by
  unfold inferConv
  split
  · left; rfl
  · split
    · right; right; exact ⟨_, _, rfl⟩
    · right; left; exact ⟨_, rfl⟩

theorem inferPool_form (pre p : Node) : (inferPool pre p).1 = p ∨ ∃ t, (inferPool pre p).1 = p.setOutputType t := by
  unfold inferPool
  split
  · right; exact ⟨_, rfl⟩
  · left; rfl

theorem inferFlatten_form (p : Node) : (inferFlatten p).1 = p ∨ ∃ t, (inferFlatten p).1 = p.setOutputType t := by
  unfold inferFlatten
  split
  · left; rfl
  · split <;> (right; exact ⟨_, rfl⟩)

/-- everything one loop body may do to the successor node -/
theorem stepNode_frame (pre post : Node) : NodeStep post (stepNode pre post).1 := by
  cases post with
  | mk k f i o m c e =>
  unfold stepNode
  cases h1 : inferInput pre (Node.mk k f i o m c e) with
  | error err => exact NodeStep.refl _
  | ok post1 =>
    obtain ⟨t1, rfl⟩ := inferInput_form _ _ _ h1
    simp only [Node.setInputType, Node.setTypes, Node.outputType]
    cases h2 : mirrorOutput (Node.mk k f t1 o m c e) with
    | error err => simp [NodeStep, Node.setField, Node.setOutputType, Node.setTypes, Node.kind, Node.metadata, Node.children, Node.edges, Node.fields, Node.outputType]
    | ok post2 =>
      simp only
      have hform := mirrorOutput_form _ _ h2
      simp only [Node.kind] at hform
      unfold inferOutput
      rcases hform with rfl | ⟨hk, t2, rfl⟩
      · simp only [Node.outputType, Node.isKind, Node.kind]
        by_cases hund : typeUndefined o = true
        · simp only [hund, Bool.not_true, Bool.false_eq_true, if_false]
          by_cases hconv : (k == "Conv1d" || k == "Conv2d") = true
          · have hk : k = "Conv1d" ∨ k = "Conv2d" := by simpa using hconv
            simp only [hconv, if_true]
            rcases inferConv_form (Node.mk k f t1 o m c e) with h | ⟨v, h⟩ | ⟨v, t, h⟩ <;> rw [h] <;>
              simp [NodeStep, Node.setField, Node.setOutputType, Node.setTypes, Node.kind, Node.metadata, Node.children, Node.edges, Node.fields, Node.outputType, hund, hk] <;>
              exact Or.inr ⟨v, rfl⟩
          · simp only [hconv, Bool.false_eq_true, if_false]
            by_cases hpool : (k == "SumPool2d" || k == "AvgPool2d") = true
            · simp only [hpool, if_true]
              rcases inferPool_form pre (Node.mk k f t1 o m c e) with h | ⟨t, h⟩ <;> rw [h] <;>
                simp [NodeStep, Node.setField, Node.setOutputType, Node.setTypes, Node.kind, Node.metadata, Node.children, Node.edges, Node.fields, Node.outputType, hund]
            · simp only [hpool, Bool.false_eq_true, if_false]
              by_cases hflat : (k == "Flatten") = true
              · simp only [hflat, if_true]
                rcases inferFlatten_form (Node.mk k f t1 o m c e) with h | ⟨t, h⟩ <;> rw [h] <;>
                  simp [NodeStep, Node.setField, Node.setOutputType, Node.setTypes, Node.kind, Node.metadata, Node.children, Node.edges, Node.fields, Node.outputType, hund]
              · simp only [hflat, Bool.false_eq_true, if_false]
                simp [NodeStep, Node.setField, Node.setOutputType, Node.setTypes, Node.kind, Node.metadata, Node.children, Node.edges, Node.fields, Node.outputType]
        · have hund' : typeUndefined o = false := by simpa using hund
          simp [NodeStep, Node.setField, Node.setOutputType, Node.setTypes, Node.kind, Node.metadata, Node.children, Node.edges, Node.fields, Node.outputType, hund']
      · subst hk
        simp only [Node.setOutputType, Node.setTypes, Node.inputType, Node.outputType, Node.isKind, Node.kind]
        by_cases hund : typeUndefined t2 = true
        · have e1 : ("Output" == "Conv1d" || "Output" == "Conv2d") = false := by decide
          have e2 : ("Output" == "SumPool2d" || "Output" == "AvgPool2d") = false := by decide
          have e3 : ("Output" == "Flatten") = false := by decide
          simp only [hund, e1, e2, e3, Bool.not_true, Bool.false_eq_true, if_false]
          simp [NodeStep, Node.setField, Node.setOutputType, Node.setTypes, Node.kind, Node.metadata, Node.children, Node.edges, Node.fields, Node.outputType]
        · have hund' : typeUndefined t2 = false := by simpa using hund
          simp [NodeStep, Node.setField, Node.setOutputType, Node.setTypes, Node.kind, Node.metadata, Node.children, Node.edges, Node.fields, Node.outputType, hund']


/-! ## the frame relation between a node of the original graph and the same node later -/

def Frame (a n : Node) : Prop :=
  n.kind = a.kind ∧ n.metadata = a.metadata ∧ n.children = a.children ∧ n.edges = a.edges ∧
  (n.fields = a.fields ∨
    (typeUndefined a.outputType = true ∧ (a.kind = "Conv1d" ∨ a.kind = "Conv2d") ∧
      ∃ v, n.fields = Py.insert "input_shape" v a.fields)) ∧
  (typeUndefined a.outputType = false → a.kind ≠ "Output" → n.outputType = a.outputType)

theorem Frame.refl (a : Node) : Frame a a := ⟨rfl, rfl, rfl, rfl, Or.inl rfl, fun _ _ => rfl⟩

theorem insert_insert {α} (k : String) (v v' : α) (d : List (String × α)) :
    Py.insert k v' (Py.insert k v d) = Py.insert k v' d := by
  induction d with
  | nil => simp [Py.insert]
  | cons kv rest ih =>
    obtain ⟨k0, v0⟩ := kv
    by_cases h : (k0 == k) = true
    · simp [Py.insert, h]
    · have h' : (k0 == k) = false := by simpa using h
      simp [Py.insert, h', ih]

theorem Frame.step {a b c : Node} (hab : Frame a b) (hbc : NodeStep b c) : Frame a c := by
  obtain ⟨k1, m1, c1, e1, f1, o1⟩ := hab
  obtain ⟨k2, m2, c2, e2, f2, o2⟩ := hbc
  refine ⟨k2.trans k1, m2.trans m1, c2.trans c1, e2.trans e1, ?_, ?_⟩
  · rcases f1 with f1 | ⟨hu, hk, v, f1⟩
    · rcases f2 with f2 | ⟨hu2, hk2, v2, f2⟩
      · left; rw [f2, f1]
      · right
        rw [k1] at hk2
        refine ⟨?_, hk2, v2, by rw [f2, f1]⟩
        by_cases hua : typeUndefined a.outputType = true
        · exact hua
        · have hua' : typeUndefined a.outputType = false := by simpa using hua
          have hne : a.kind ≠ "Output" := by rcases hk2 with h | h <;> rw [h] <;> decide
          rw [o1 hua' hne] at hu2
          rw [hu2] at hua'; cases hua'
    · right
      refine ⟨hu, hk, ?_⟩
      rcases f2 with f2 | ⟨_, _, v2, f2⟩
      · exact ⟨v, by rw [f2, f1]⟩
      · exact ⟨v2, by rw [f2, f1, insert_insert]⟩
  · intro hu hne
    have hb := o1 hu hne
    have hub : typeUndefined b.outputType = false := by rw [hb]; exact hu
    have hneb : b.kind ≠ "Output" := by rw [k1]; exact hne
    rw [o2 hub hneb, hb]

theorem map_fst_insert_of_lookup {α} (k : String) (v v0 : α) (d : List (String × α)) (h : lookup k d = some v0) :
    (Py.insert k v d).map Prod.fst = d.map Prod.fst := by
  induction d with
  | nil => simp [lookup] at h
  | cons kv rest ih =>
    obtain ⟨k0, x0⟩ := kv
    by_cases hk : (k0 == k) = true
    · have : k0 = k := by simpa using hk
      simp [Py.insert, hk, this]
    · have hk' : (k0 == k) = false := by simpa using hk
      simp only [lookup, hk', Bool.false_eq_true, if_false] at h
      simp [Py.insert, hk', ih h]

/-- node table `nodes` is the original table `nodes0` up to `Frame` on every entry -/
def FrameInv (nodes0 nodes : Nodes) : Prop :=
  nodes.map Prod.fst = nodes0.map Prod.fst ∧
  ∀ k n0, lookup k nodes0 = some n0 → ∃ n, lookup k nodes = some n ∧ Frame n0 n

theorem FrameInv.refl (nodes0 : Nodes) : FrameInv nodes0 nodes0 :=
  ⟨rfl, fun _ n0 h => ⟨n0, h, Frame.refl _⟩⟩

theorem lookup_some_of_frameInv {nodes0 nodes : Nodes} (h : FrameInv nodes0 nodes) (k : String) (n : Node)
    (hl : lookup k nodes = some n) : ∃ n0, lookup k nodes0 = some n0 := by
  have hmem : k ∈ nodes.map Prod.fst := by
    by_cases hm : k ∈ nodes.map Prod.fst
    · exact hm
    · rw [lookup_eq_none_of_not_mem k nodes hm] at hl; cases hl
  rw [h.1] at hmem
  exact Option.isSome_iff_exists.mp (lookup_isSome_of_mem k nodes0 hmem)

theorem processEdge_frameInv (nodes0 nodes : Nodes) (pre post : String) (h : FrameInv nodes0 nodes) :
    FrameInv nodes0 (processEdge nodes pre post).1 := by
  unfold processEdge
  split
  · exact h
  · exact h
  · rename_i p q hp hq
    split
    · exact h
    · simp only [setNode]
      refine ⟨by rw [map_fst_insert_of_lookup post _ q nodes hq]; exact h.1, ?_⟩
      intro k n0 hk
      obtain ⟨n, hn, hfr⟩ := h.2 k n0 hk
      by_cases hkp : k = post
      · subst hkp
        rw [hq] at hn; cases hn
        exact ⟨_, lookup_insert_self _ _ _, hfr.step (stepNode_frame p q)⟩
      · exact ⟨n, by rw [lookup_insert_ne _ _ _ _ hkp]; exact hn, hfr⟩

theorem forwardInference_frameInv (g : Node) : FrameInv g.children (forwardInference g).1 := by
  unfold forwardInference
  exact workList_inv g.edges processEdge (FrameInv g.children)
    (fun st pre post h => processEdge_frameInv _ _ _ _ h) _ _ _ (FrameInv.refl _)

/-- joint invariant over (state, stack, seen) of the work-list, with a conclusion `Q` at exit -/
theorem workList_inv2 {σ ε : Type} (edges : List Edge) (step : σ → String → String → σ × Option ε)
    (P : σ → List {e : Edge // e ∈ edges} → List String → Prop) (Q : σ → List String → Option ε → Prop)
    (hdone : ∀ st seen, P st [] seen → Q st seen none)
    (herr : ∀ st pre post hmem rest seen st' e, P st (⟨(pre, post), hmem⟩ :: rest) seen →
      step st pre post = (st', some e) → Q st' seen (some e))
    (hok : ∀ st pre post hmem rest seen st', P st (⟨(pre, post), hmem⟩ :: rest) seen →
      step st pre post = (st', none) → P st' ((pushed edges post (post :: seen)).reverse ++ rest) (post :: seen))
    (st : σ) (stack : List {e : Edge // e ∈ edges}) (seen : List String) (h : P st stack seen) :
    Q (workList edges step st stack seen).1 (workList edges step st stack seen).2.1
      (workList edges step st stack seen).2.2 := by
  fun_induction workList edges step st stack seen with
  | case1 st seen => exact hdone _ _ h
  | case2 st seen pre post hmem rest st' e hs => exact herr _ _ _ _ _ _ _ _ h hs
  | case3 st seen pre post hmem rest st' hs ih => exact ih (hok _ _ _ _ _ _ _ h hs)


/-- `k` is the target of a non-empty path of edges starting at one of the `inputs`. -/
inductive Reach (edges : List Edge) (inputs : List String) : String → Prop
  | start {a b : String} : (a, b) ∈ edges → a ∈ inputs → Reach edges inputs b
  | step {a b : String} : (a, b) ∈ edges → Reach edges inputs a → Reach edges inputs b

theorem mem_pushed (edges : List Edge) (post : String) (seen : List String) (e : {e : Edge // e ∈ edges}) :
    e ∈ pushed edges post seen ↔ e.1.1 = post ∧ e.1.2 ∉ seen := by
  simp [pushed, List.mem_filter]

theorem mem_initialStack (edges : List Edge) (inputs : List String) (e : {e : Edge // e ∈ edges}) :
    e ∈ initialStack edges inputs ↔ e.1.1 ∈ inputs := by
  simp [initialStack, List.mem_filter]

theorem mem_initialSeen (edges : List Edge) (inputs : List String) (k : String) :
    k ∈ initialSeen edges inputs ↔ k ∈ inputs ∧ ∃ b, (k, b) ∈ edges := by
  simp only [initialSeen, List.mem_map, List.mem_filter]
  constructor
  · rintro ⟨⟨a, b⟩, ⟨hmem, hin⟩, rfl⟩
    exact ⟨by simpa using hin, b, hmem⟩
  · rintro ⟨hin, b, hmem⟩
    exact ⟨(k, b), ⟨hmem, by simpa using hin⟩, rfl⟩

/-- The structural invariant of the work-list run on graph `g`, with a node predicate `Good`
that every processed node must satisfy. -/
structure RunInv (g : Node) (inputs : List String) (Good : String → Node → Prop)
    (nodes : Nodes) (stack : List {e : Edge // e ∈ g.edges}) (seen : List String) : Prop where
  srcSeen : ∀ e ∈ stack, e.1.1 ∈ seen
  sound : ∀ k ∈ seen, k ∈ inputs ∨ Reach g.edges inputs k
  closed : ∀ e : {e : Edge // e ∈ g.edges}, e.1.1 ∈ seen → e.1.2 ∈ seen ∨ e ∈ stack
  initSeen : ∀ k ∈ initialSeen g.edges inputs, k ∈ seen
  untouched : ∀ k, k ∉ seen → lookup k nodes = lookup k g.children
  modReach : ∀ k, lookup k nodes ≠ lookup k g.children → Reach g.edges inputs k
  present : ∀ k ∈ seen, (lookup k nodes).isSome = true
  good : ∀ k ∈ seen, ∀ n, lookup k nodes = some n → Good k n

theorem runInv_init (g : Node) (inputs : List String) (Good : String → Node → Prop)
    (hpresent : ∀ k ∈ inputs, (lookup k g.children).isSome = true)
    (hinit : ∀ k ∈ initialSeen g.edges inputs, ∀ n, lookup k g.children = some n → Good k n) :
    RunInv g inputs Good g.children (initialStack g.edges inputs) (initialSeen g.edges inputs) where
  srcSeen := by
    intro e he
    rw [mem_initialStack] at he
    rw [mem_initialSeen]
    exact ⟨he, e.1.2, e.2⟩
  sound := by
    intro k hk
    rw [mem_initialSeen] at hk
    exact Or.inl hk.1
  closed := by
    intro e he
    rw [mem_initialSeen] at he
    right; rw [mem_initialStack]; exact he.1
  initSeen := fun k hk => hk
  untouched := fun _ _ => rfl
  modReach := fun _ h => absurd rfl h
  present := fun k hk => hpresent k ((mem_initialSeen _ _ _).mp hk).1
  good := hinit


theorem processEdge_ok (nodes nodes' : Nodes) (pre post : String) (h : processEdge nodes pre post = (nodes', none)) :
    ∃ preN postN, lookup pre nodes = some preN ∧ lookup post nodes = some postN ∧
      (stepNode preN postN).2 = none ∧ nodes' = Py.insert post (stepNode preN postN).1 nodes := by
  unfold processEdge at h
  split at h
  · cases h
  · cases h
  · rename_i p q hp hq
    split at h
    · cases h
    · simp only [setNode, Prod.mk.injEq] at h
      exact ⟨p, q, hp, hq, h.2, h.1.symm⟩

theorem runInv_step (g : Node) (inputs : List String) (Good : String → Node → Prop)
    (hstep : ∀ pre post preN postN, (pre, post) ∈ g.edges → Good pre preN →
      (lookup post g.children = some postN ∨ Good post postN) →
      (stepNode preN postN).2 = none → Good post (stepNode preN postN).1)
    (nodes nodes' : Nodes) (pre post : String) (hmem : (pre, post) ∈ g.edges)
    (rest : List {e : Edge // e ∈ g.edges}) (seen : List String)
    (h : RunInv g inputs Good nodes (⟨(pre, post), hmem⟩ :: rest) seen)
    (hs : processEdge nodes pre post = (nodes', none)) :
    RunInv g inputs Good nodes' ((pushed g.edges post (post :: seen)).reverse ++ rest) (post :: seen) := by
  obtain ⟨preN, postN, hpre, hpost, hnone, rfl⟩ := processEdge_ok _ _ _ _ hs
  have hpreSeen : pre ∈ seen := h.srcSeen ⟨(pre, post), hmem⟩ List.mem_cons_self
  have hgoodPre : Good pre preN := h.good pre hpreSeen preN hpre
  have hpostCase : lookup post g.children = some postN ∨ Good post postN := by
    by_cases hp : post ∈ seen
    · exact Or.inr (h.good post hp postN hpost)
    · left; rw [← h.untouched post hp]; exact hpost
  have hgoodNew : Good post (stepNode preN postN).1 := hstep pre post preN postN hmem hgoodPre hpostCase hnone
  constructor
  · -- srcSeen
    intro e he
    rcases List.mem_append.mp he with he | he
    · have := (mem_pushed _ _ _ e).mp (List.mem_reverse.mp he)
      rw [this.1]; exact List.mem_cons_self
    · exact List.mem_cons_of_mem _ (h.srcSeen e (List.mem_cons_of_mem _ he))
  · -- sound
    intro k hk
    rcases List.mem_cons.mp hk with rfl | hk
    · right
      rcases h.sound pre hpreSeen with hin | hr
      · exact Reach.start hmem hin
      · exact Reach.step hmem hr
    · exact h.sound k hk
  · -- closed
    intro e he
    by_cases h2 : e.1.2 ∈ post :: seen
    · exact Or.inl h2
    · right
      rcases List.mem_cons.mp he with he | he
      · exact List.mem_append.mpr (Or.inl (List.mem_reverse.mpr ((mem_pushed _ _ _ e).mpr ⟨he, h2⟩)))
      · rcases h.closed e he with h3 | h3
        · exact absurd (List.mem_cons_of_mem _ h3) h2
        · rcases List.mem_cons.mp h3 with h4 | h4
          · exfalso; apply h2; rw [h4]; exact List.mem_cons_self
          · exact List.mem_append.mpr (Or.inr h4)
  · exact fun k hk => List.mem_cons_of_mem _ (h.initSeen k hk)
  · -- untouched
    intro k hk
    have hne : k ≠ post := fun e => hk (e ▸ List.mem_cons_self)
    rw [lookup_insert_ne _ _ _ _ hne]
    exact h.untouched k (fun hm => hk (List.mem_cons_of_mem _ hm))
  · -- modReach
    intro k hk
    by_cases hkp : k = post
    · subst hkp
      rcases h.sound pre hpreSeen with hin | hr
      · exact Reach.start hmem hin
      · exact Reach.step hmem hr
    · rw [lookup_insert_ne _ _ _ _ hkp] at hk
      exact h.modReach k hk
  · -- present
    intro k hk
    by_cases hkp : k = post
    · subst hkp; rw [lookup_insert_self]; rfl
    · rw [lookup_insert_ne _ _ _ _ hkp]
      rcases List.mem_cons.mp hk with hk | hk
      · exact absurd hk hkp
      · exact h.present k hk
  · -- good
    intro k hk n hn
    by_cases hkp : k = post
    · subst hkp
      rw [lookup_insert_self] at hn; cases hn
      exact hgoodNew
    · rw [lookup_insert_ne _ _ _ _ hkp] at hn
      rcases List.mem_cons.mp hk with hk | hk
      · exact absurd hk hkp
      · exact h.good k hk n hn

/-- What a *successful* forward inference guarantees, for any node predicate `Good` that is
established on the Input sources and propagated by one loop body. -/
theorem inputs_present (g : Node) : ∀ k ∈ (graphInputs g).map Prod.fst, (lookup k g.children).isSome = true := by
  intro k hk
  apply lookup_isSome_of_mem
  simp only [graphInputs, List.mem_map, List.mem_filter] at hk ⊢
  obtain ⟨p, ⟨hp, _⟩, rfl⟩ := hk
  exact ⟨p, hp, rfl⟩

theorem forwardInference_good (g : Node) (Good : String → Node → Prop)
    (hinit : ∀ k ∈ initialSeen g.edges ((graphInputs g).map Prod.fst), ∀ n, lookup k g.children = some n → Good k n)
    (hstep : ∀ pre post preN postN, (pre, post) ∈ g.edges → Good pre preN →
      (lookup post g.children = some postN ∨ Good post postN) →
      (stepNode preN postN).2 = none → Good post (stepNode preN postN).1)
    (hsucc : (forwardInference g).2.2 = none) :
    let inputs := (graphInputs g).map Prod.fst
    let nodes := (forwardInference g).1
    let seen := (forwardInference g).2.1
    (∀ k ∈ seen, ∃ n, lookup k nodes = some n ∧ Good k n) ∧
    (∀ k, k ∉ seen → lookup k nodes = lookup k g.children) ∧
    (∀ k, Reach g.edges inputs k → k ∈ seen) ∧
    (∀ k ∈ seen, k ∈ inputs ∨ Reach g.edges inputs k) := by
  intro inputs nodes seen
  have key := workList_inv2 g.edges processEdge (RunInv g inputs Good)
    (fun st sn err => err = none → (RunInv g inputs Good st [] sn))
    (fun st sn h _ => h)
    (fun st pre post hmem rest sn st' e _ _ he => by cases he)
    (fun st pre post hmem rest sn st' h hs => runInv_step g inputs Good hstep st st' pre post hmem rest sn h hs)
    g.children (initialStack g.edges inputs) (initialSeen g.edges inputs)
    (runInv_init g inputs Good (inputs_present g) hinit)
  have hfin : RunInv g inputs Good nodes [] seen := key hsucc
  refine ⟨fun k hk => ?_, hfin.untouched, ?_, hfin.sound⟩
  · obtain ⟨n, hn⟩ := Option.isSome_iff_exists.mp (hfin.present k hk)
    exact ⟨n, hn, hfin.good k hk n hn⟩
  intro k hk
  induction hk with
  | @start a b hab ha =>
    have : a ∈ seen := hfin.initSeen a ((mem_initialSeen _ _ _).mpr ⟨ha, b, hab⟩)
    rcases hfin.closed ⟨(a, b), hab⟩ this with h | h
    · exact h
    · cases h
  | @step a b hab _ ih =>
    rcases hfin.closed ⟨(a, b), hab⟩ ih with h | h
    · exact h
    · cases h

/-- both type dictionaries are fully defined -/
def DefinedBoth (n : Node) : Prop :=
  typeUndefined n.inputType = false ∧ typeUndefined n.outputType = false

def isNoneVal : Val → Bool | .none => true | _ => false

theorem typeUndefined_dict (kvs : List (String × Val)) :
    typeUndefined (.dict kvs) = kvs.any (fun kv => isNoneVal kv.2) := by
  simp only [typeUndefined]; congr 1

theorem insertAll_values {α} (p : α → Bool) (acc l : List (String × α))
    (hacc : acc.any (fun kv => p kv.2) = false) (hl : l.any (fun kv => p kv.2) = false) :
    (insertAll acc l).any (fun kv => p kv.2) = false := by
  induction l generalizing acc with
  | nil => simpa [insertAll] using hacc
  | cons kv rest ih =>
    obtain ⟨k, v⟩ := kv
    simp only [List.any_cons, Bool.or_eq_false_iff] at hl
    simp only [insertAll]
    apply ih _ _ hl.2
    -- insert keeps the property
    clear ih
    induction acc with
    | nil => simp [Py.insert, hl.1]
    | cons kv0 acc ih2 =>
      obtain ⟨k0, v0⟩ := kv0
      simp only [List.any_cons, Bool.or_eq_false_iff] at hacc
      by_cases hk : (k0 == k) = true
      · simp [Py.insert, hk, hl.1, hacc.2]
      · have hk' : (k0 == k) = false := by simpa using hk
        simp [Py.insert, hk', hacc.1, ih2 hacc.2]

theorem renameKeys_defined (a b : String) (d t : Val) (h : renameKeys a b d = .ok t)
    (hd : typeUndefined d = false) : typeUndefined t = false := by
  cases d with
  | dict kvs =>
    simp only [renameKeys, Except.ok.injEq] at h
    subst h
    rw [typeUndefined_dict] at hd ⊢
    apply insertAll_values
    · rfl
    · rw [List.any_map]; exact hd
  | _ => simp [renameKeys] at h


theorem typeUndefined_typeDict_arr (key : String) (xs : List Int) :
    typeUndefined (typeDict key (shapeArray xs)) = false := by
  simp only [typeDict, shapeArray, Val.ofInts]
  split <;> simp [typeUndefined]

theorem typeUndefined_typeDict_flattenArray (key : String) (it : Val) (xs : List Int) :
    typeUndefined (typeDict key (flattenArray it xs)) = false := by
  unfold flattenArray
  split
  · split
    · simp [typeDict, typeUndefined]
    · exact typeUndefined_typeDict_arr _ _
  · exact typeUndefined_typeDict_arr _ _

theorem flattenShapes_defined (p : Node) (out : Val) (b : Bool) (h : flattenShapes p = .ok (out, b)) :
    typeUndefined (typeDict "output" out) = false := by
  simp only [flattenShapes, bind, Except.bind, pure, Except.pure] at h
  repeat' split at h
  all_goals (try cases h)
  all_goals exact typeUndefined_typeDict_flattenArray _ _ _

theorem convOutputType_defined (p : Node) (v t : Val) (h : convOutputType p v = .ok t) :
    typeUndefined t = false := by
  simp only [convOutputType, bind, Except.bind, pure, Except.pure] at h
  repeat' split at h
  all_goals (try cases h)
  all_goals exact typeUndefined_typeDict_arr _ _

theorem poolArray_defined (c : Int) (out : List Int) (cv a : Val) (h : poolArray c out cv = .ok a) :
    typeUndefined (typeDict "output" a) = false := by
  unfold poolArray at h
  split at h
  · cases h; simp [typeDict, typeUndefined]
  · split at h
    · cases h
    · cases h; exact typeUndefined_typeDict_arr _ _
  · cases h; exact typeUndefined_typeDict_arr _ _

theorem poolOutputType_defined (pre p : Node) (t : Val) (h : poolOutputType pre p = .ok t) :
    typeUndefined t = false := by
  simp only [poolOutputType, bind, Except.bind, pure, Except.pure] at h
  repeat' split at h
  all_goals (try cases h)
  all_goals (rename_i ha; exact poolArray_defined _ _ _ _ ha)

/-- kinds whose output type inference (re)computes -/
def inferable (k : String) : Bool :=
  k == "Conv1d" || k == "Conv2d" || k == "SumPool2d" || k == "AvgPool2d" || k == "Flatten" || k == "Output"

theorem needsInput_false (pre post : Node) (h : needsInput pre post = .ok false) :
    typeUndefined post.inputType = false := by
  simp only [needsInput, bind, Except.bind, pure, Except.pure] at h
  cases h1 : typeLen pre.outputType with
  | error e => simp [h1] at h
  | ok lo =>
    cases h2 : typeLen post.inputType with
    | error e => simp [h1, h2] at h
    | ok li =>
      simp only [h1, h2] at h
      by_cases hne : (lo != li) = true
      · simp [hne] at h
      · simp only [hne, Bool.false_eq_true, if_false] at h
        cases h3 : singleValue pre.outputType with
        | error e => simp [h3] at h
        | ok a =>
          cases h4 : singleValue post.inputType with
          | error e => simp [h3, h4] at h
          | ok b =>
            cases h5 : shapeEq a b with
            | error e => simp [h3, h4, h5] at h
            | ok r =>
              simp [h3, h4, h5] at h
              exact h.1

theorem inferInput_defined (pre post post1 : Node) (h : inferInput pre post = .ok post1)
    (hpre : typeUndefined pre.outputType = false) :
    typeUndefined post1.inputType = false ∧ post1.outputType = post.outputType ∧ post1.kind = post.kind
      ∧ post1.fields = post.fields := by
  unfold inferInput at h
  split at h
  · cases h
  · rename_i hn; cases h; exact ⟨needsInput_false _ _ hn, rfl, rfl, rfl⟩
  · split at h
    · cases h
    · rename_i t hr
      cases h
      cases post
      exact ⟨renameKeys_defined _ _ _ _ hr hpre, rfl, rfl, rfl⟩

theorem mirrorOutput_defined (post1 post2 : Node) (h : mirrorOutput post1 = .ok post2)
    (h1 : typeUndefined post1.inputType = false) :
    typeUndefined post2.inputType = false ∧ post2.kind = post1.kind ∧ post2.fields = post1.fields ∧
      (post1.kind = "Output" → typeUndefined post2.outputType = false) ∧
      (post1.kind ≠ "Output" → post2.outputType = post1.outputType) := by
  cases post1 with
  | mk k f i o m c e =>
  simp only [mirrorOutput, Node.isKind, Node.kind, bind, Except.bind, pure, Except.pure, Node.inputType] at h h1
  by_cases hk : k = "Output"
  · subst hk
    simp only [beq_self_eq_true, if_true] at h
    cases hr : renameKeys "input" "output" i with
    | error e => simp [hr] at h
    | ok t =>
      simp only [hr, Except.ok.injEq] at h
      subst h
      simp only [Node.setOutputType, Node.setTypes, Node.inputType, Node.outputType, Node.kind, Node.fields]
      exact ⟨h1, trivial, trivial, fun _ => renameKeys_defined _ _ _ _ hr h1, fun hne => absurd rfl hne⟩
  · have hk' : (k == "Output") = false := by simpa using hk
    simp only [hk', Bool.false_eq_true, if_false, Except.ok.injEq] at h
    subst h
    exact ⟨h1, rfl, rfl, fun hk2 => absurd hk2 hk, fun _ => rfl⟩

/-- A successful loop body leaves the successor with both types defined, provided the
predecessor's output type is defined and the successor is of an inferable kind or already had
a defined output type. -/
theorem stepNode_defined (pre post : Node) (hpre : typeUndefined pre.outputType = false)
    (hstat : inferable post.kind = true ∨ typeUndefined post.outputType = false)
    (hok : (stepNode pre post).2 = none) : DefinedBoth (stepNode pre post).1 := by
  unfold stepNode at hok ⊢
  cases h1 : inferInput pre post with
  | error e => simp [h1] at hok
  | ok post1 =>
    obtain ⟨d1, o1, k1, f1⟩ := inferInput_defined _ _ _ h1 hpre
    simp only [h1] at hok ⊢
    cases h2 : mirrorOutput post1 with
    | error e => simp [h2] at hok
    | ok post2 =>
      obtain ⟨d2, k2, f2, oOut, oKeep⟩ := mirrorOutput_defined _ _ h2 d1
      simp only [h2] at hok ⊢
      unfold inferOutput at hok ⊢
      by_cases hund : typeUndefined post2.outputType = true
      · simp only [hund, Bool.not_true, Bool.false_eq_true, if_false] at hok ⊢
        have hkind : post2.kind = post.kind := k2.trans k1
        have hnotOut : post.kind ≠ "Output" := by
          intro hk
          have := oOut (k1.trans hk)
          rw [this] at hund; cases hund
        have hkeep : post2.outputType = post.outputType := (oKeep (by rw [k1]; exact hnotOut)).trans o1
        by_cases hconv : (post2.isKind "Conv1d" || post2.isKind "Conv2d") = true
        · simp only [hconv, if_true] at hok ⊢
          unfold inferConv at hok ⊢
          cases hc1 : convInputShape post2 with
          | error e => simp [hc1] at hok
          | ok ishape =>
            simp only [hc1] at hok ⊢
            cases hc2 : convOutputType (post2.setField "input_shape" ishape) ishape with
            | error e => simp [hc2] at hok
            | ok t =>
              simp only [hc2]
              have := convOutputType_defined _ _ _ hc2
              cases post2
              exact ⟨d2, this⟩
        · simp only [hconv, Bool.false_eq_true, if_false] at hok ⊢
          by_cases hpool : (post2.isKind "SumPool2d" || post2.isKind "AvgPool2d") = true
          · simp only [hpool, if_true] at hok ⊢
            unfold inferPool at hok ⊢
            cases hp : poolOutputType pre post2 with
            | error e => simp [hp] at hok
            | ok t =>
              simp only [hp]
              have := poolOutputType_defined _ _ _ hp
              cases post2
              exact ⟨d2, this⟩
          · simp only [hpool, Bool.false_eq_true, if_false] at hok ⊢
            by_cases hflat : post2.isKind "Flatten" = true
            · simp only [hflat, if_true] at hok ⊢
              unfold inferFlatten at hok ⊢
              cases hf : flattenShapes post2 with
              | error e => simp [hf] at hok
              | ok r =>
                obtain ⟨out, cok⟩ := r
                simp only [hf] at hok ⊢
                have hdef := flattenShapes_defined _ _ _ hf
                cases cok with
                | true => simp only [if_true]; cases post2; exact ⟨d2, hdef⟩
                | false => simp at hok
            · -- not an inferable kind: its output type was defined all along
              exfalso
              rcases hstat with hinf | hdef
              · simp only [inferable, ← hkind, Node.isKind] at hinf hconv hpool hflat
                have : (post2.kind == "Output") = false := by
                  rw [hkind]; simpa using hnotOut
                simp_all
              · rw [← hkeep, hund] at hdef; cases hdef
      · have hund' : typeUndefined post2.outputType = false := by simpa using hund
        simp only [hund', Bool.not_false, if_true]
        exact ⟨d2, hund'⟩


theorem processEdge_other (nodes : Nodes) (pre post k : String) (hk : k ≠ post) :
    lookup k (processEdge nodes pre post).1 = lookup k nodes := by
  unfold processEdge
  split
  · rfl
  · rfl
  · split
    · rfl
    · simp only [setNode]; exact lookup_insert_ne _ _ _ _ hk

/-- Whatever happens (success or exception), inference only ever modifies nodes that are
reachable from an Input. -/
theorem forwardInference_touched (g : Node) :
    ∀ k, lookup k (forwardInference g).1 ≠ lookup k g.children →
      Reach g.edges ((graphInputs g).map Prod.fst) k := by
  have key := workList_inv2 g.edges processEdge (RunInv g ((graphInputs g).map Prod.fst) (fun _ _ => True))
    (fun st _ _ => ∀ k, lookup k st ≠ lookup k g.children → Reach g.edges ((graphInputs g).map Prod.fst) k)
    (fun st sn h => h.modReach)
    (fun st pre post hmem rest sn st' e h hs k hk => by
      have hst : st' = (processEdge st pre post).1 := by rw [hs]
      by_cases hkp : k = post
      · subst hkp
        have hpreSeen : pre ∈ sn := h.srcSeen ⟨(pre, k), hmem⟩ List.mem_cons_self
        rcases h.sound pre hpreSeen with hin | hr
        · exact Reach.start hmem hin
        · exact Reach.step hmem hr
      · rw [hst, processEdge_other _ _ _ _ hkp] at hk
        exact h.modReach k hk)
    (fun st pre post hmem rest sn st' h hs =>
      runInv_step g _ (fun _ _ => True) (fun _ _ _ _ _ _ _ _ => trivial) st st' pre post hmem rest sn h hs)
    g.children (initialStack g.edges _) (initialSeen g.edges _) (runInv_init g _ _ (inputs_present g) (fun _ _ _ _ => trivial))
  exact key


theorem lookup_of_mem_nodup {α} (d : List (String × α)) (hnd : (d.map Prod.fst).Nodup) (k : String) (v : α)
    (h : (k, v) ∈ d) : lookup k d = some v := by
  induction d with
  | nil => cases h
  | cons kv rest ih =>
    obtain ⟨k0, v0⟩ := kv
    simp only [List.map_cons, List.nodup_cons] at hnd
    rcases List.mem_cons.mp h with h | h
    · cases h; simp [lookup]
    · have hne : (k0 == k) = false := by
        have : k0 ≠ k := by
          rintro rfl; exact hnd.1 (List.mem_map.mpr ⟨(k0, v), h, rfl⟩)
        simpa using this
      simp only [lookup, hne, Bool.false_eq_true, if_false]
      exact ih hnd.2 h

end NirVerif.Lemmas
