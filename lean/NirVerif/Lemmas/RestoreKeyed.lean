import NirVerif.Lemmas.Restore
import NirVerif.Lemmas.Encoding
/-
  Key-aware single-step lemmas: with the port names `input` / `output` that every NIR
  primitive uses, one loop body of the inference also *recomputes* the erased output type
  of a Flatten node from its (restored) input type.
-/
namespace NirVerif.Lemmas
open NirVerif NirVerif.Py NirVerif.Model

theorem replace_output : pyReplace "output" "output" "input" = "input" := by decide +kernel
theorem replace_input : pyReplace "input" "input" "output" = "output" := by decide +kernel

/-- int64 range -/
def FitsI64 (xs : List Int) : Prop := ∀ x ∈ xs, 0 ≤ x ∧ x < 2 ^ 63

theorem shapeOfVal_ofInts (xs : List Int) (h : FitsI64 xs) : Spec.shapeOfVal (Val.ofInts xs) = some xs := by
  have : decodeInts DType.int64 (encodeInts DType.int64 xs) = xs :=
    decodeInts_encodeInts DType.int64 xs (by decide) (by
      intro x hx
      obtain ⟨h0, h1⟩ := h x hx
      have e : (8 * DType.int64.size - 1) = 63 := by decide
      have hk : DType.int64.kind = DKind.int := rfl
      simp only [fitsInt, e, hk, Bool.and_eq_true, decide_eq_true_eq]
      omega)
  simp only [Spec.shapeOfVal, Val.ofInts, this]
  rfl

theorem shapeOfVal_shapeArray (xs : List Int) (h : FitsI64 xs) : Spec.shapeOfVal (shapeArray xs) = some xs := by
  unfold shapeArray
  split
  · rename_i he
    have : xs = [] := by simpa using he
    subst this; rfl
  · exact shapeOfVal_ofInts xs h

def u64 : DType := { kind := .uint, size := 8 }

theorem shapeOfVal_flattenArray (it : Val) (xs : List Int) (h : FitsI64 xs) :
    Spec.shapeOfVal (flattenArray it xs) = some xs := by
  unfold flattenArray
  split
  · split
    · have : decodeInts u64 (encodeInts u64 xs) = xs :=
        decodeInts_encodeInts u64 xs (by decide) (by
          intro x hx
          obtain ⟨h0, h1⟩ := h x hx
          have e : (8 * u64.size) = 64 := by decide
          have hk : u64.kind = DKind.uint := rfl
          simp only [fitsInt, e, hk, Bool.and_eq_true, decide_eq_true_eq]
          omega)
      simp only [Spec.shapeOfVal]
      exact congrArg some this
    · exact shapeOfVal_shapeArray xs h
  · exact shapeOfVal_shapeArray xs h

/-- on a non-empty shape the model's integer reading agrees with the specification's -/
theorem shapeInts_of_some (v : Val) (s : List Int) (h : Spec.shapeOfVal v = some s) (hne : s ≠ []) :
    shapeInts v = .ok s := by
  cases v with
  | arr dt sh d =>
    match sh, h with
    | [n], h =>
      simp only [Spec.shapeOfVal] at h
      simp only [shapeInts, DType.isInteger]
      split at h
      · rename_i hk
        cases h
        simp [hk]
      · split at h
        · cases h; exact absurd rfl hne
        · cases h
  | tuple xs => simp only [Spec.shapeOfVal] at h; simp [shapeInts, asInt_eq, h]
  | list xs => simp only [Spec.shapeOfVal] at h; simp [shapeInts, asInt_eq, h]
  | _ => simp [Spec.shapeOfVal] at h

/-- not an unsigned numpy scalar (numpy promotes uint64 mixed with int64 to float64) -/
def NoUnsigned (x : Val) : Prop := ∀ dt b, x = .npscalar dt b → dt.kind ≠ .uint

/-- a well-formed shape value: a rank-1 array's declared length is the number of items it
holds, and no unsigned numpy integers occur (as dtype or as tuple entries) -/
def WFShape : Val → Prop
  | .arr dt [n] d => n = (chunks dt.size d).length ∧ dt.kind ≠ .uint
  | .tuple xs => ∀ x ∈ xs, NoUnsigned x
  | .list xs => ∀ x ∈ xs, NoUnsigned x
  | _ => True

theorem chunks_encodeInts (dt : DType) (hs : 1 ≤ dt.size) (xs : List Int) :
    chunks dt.size (encodeInts dt xs) = xs.map (encodeInt dt) := by
  unfold chunks encodeInts
  apply chunksAux_flatten dt.size hs
  · intro l hl; obtain ⟨x, _, rfl⟩ := List.mem_map.mp hl; exact length_encodeInt dt x
  · simp only [List.length_map, List.length_flatten, List.map_map]
    have : ∀ l : List Int, l.length ≤ (l.map (List.length ∘ encodeInt dt)).sum := by
      intro l
      induction l with
      | nil => simp
      | cons a as ih => simp [length_encodeInt]; omega
    exact this xs

theorem wf_ofInts (xs : List Int) : WFShape (Val.ofInts xs) := by
  refine ⟨?_, by decide⟩
  simp [chunks_encodeInts DType.int64 (by decide)]

theorem wf_shapeArray (xs : List Int) : WFShape (shapeArray xs) := by
  unfold shapeArray
  split
  · exact ⟨by simp [chunks, chunksAux], by decide⟩
  · exact wf_ofInts xs

theorem wf_flattenArray (it : Val) (xs s : List Int) (hit : WFShape it) (hsh : Spec.shapeOfVal it = some s) :
    WFShape (flattenArray it xs) := by
  unfold flattenArray
  split
  · rename_i dt sh d
    split
    · rename_i hu
      -- an unsigned input array is not well-formed
      exfalso
      have hk : dt.kind = DKind.uint := by
        have := hu
        simp only [Bool.and_eq_true, beq_iff_eq] at this
        exact this.1
      match sh, hit, hsh with
      | [n], hit, _ => exact hit.2 hk
      | [], _, hsh => simp [Spec.shapeOfVal] at hsh
      | _ :: _ :: _, _, hsh => simp [Spec.shapeOfVal] at hsh
    · exact wf_shapeArray xs
  · exact wf_shapeArray xs

/-- Step 1 with the standard port names: the successor's input type is `{"input": v}` where
`v` carries the predecessor's output shape. -/
theorem inferInput_keyed (pre post : Node) (vo vi : Val) (s : List Int)
    (hpo : pre.outputType = typeDict "output" vo) (hso : Spec.shapeOfVal vo = some s)
    (hpi : post.inputType = typeDict "input" vi) (hvi : PortVal vi) (hwo : WFShape vo) (hwi : WFShape vi) :
    ∃ v, inferInput pre post = .ok (post.setInputType (typeDict "input" v)) ∧
      Spec.shapeOfVal v = some s ∧ WFShape v := by
  obtain ⟨t, h1, hts, _, hor⟩ := inferInput_shape pre post "output" "input" vo vi s hpo hso hpi hvi
  rcases hor with rfl | rfl
  · exact ⟨vo, by rw [h1, replace_output]; rfl, hso, hwo⟩
  · refine ⟨vi, by rw [h1, hpi], ?_, hwi⟩
    rw [hpi] at hts; simpa [Spec.portShape, typeDict] using hts

/-- keyed form of the node typing: the standard port names and defined shapes -/
def HasTypesK (n : Node) (t : List Int × List Int) : Prop :=
  (∃ vi, n.inputType = typeDict "input" vi ∧ Spec.shapeOfVal vi = some t.1 ∧ WFShape vi) ∧
  (∃ vo, n.outputType = typeDict "output" vo ∧ Spec.shapeOfVal vo = some t.2 ∧ WFShape vo)

/-- one loop body on an erased **Flatten** node: its output type is recomputed from the
restored input shape -/
theorem stepNode_flatten (pre post : Node) (vo vi : Val) (s : List Int) (sd ed : Int)
    (hk : post.kind = "Flatten") (hout : post.outputType = typeDict "output" .none)
    (hsd : (post.field? "start_dim").bind Val.asInt? = some sd) (hed : (post.field? "end_dim").bind Val.asInt? = some ed)
    (hpo : pre.outputType = typeDict "output" vo) (hso : Spec.shapeOfVal vo = some s) (hne : s ≠ [])
    (hpi : post.inputType = typeDict "input" vi) (hvi : PortVal vi) (hwo : WFShape vo) (hwi : WFShape vi)
    (hcount : Py.prod s = Py.prod (calcFlattenOutput s sd ed)) (hfit : FitsI64 (calcFlattenOutput s sd ed)) :
    (stepNode pre post).2 = none ∧ HasTypesK (stepNode pre post).1 (s, calcFlattenOutput s sd ed) := by
  obtain ⟨v, h1, hv, hwv⟩ := inferInput_keyed pre post vo vi s hpo hso hpi hvi hwo hwi
  have hsi := shapeInts_of_some v s hv hne
  have hfa := shapeOfVal_flattenArray v _ hfit
  have hwf := wf_flattenArray v (calcFlattenOutput s sd ed) s hwv hv
  cases post with
  | mk k f i o m c e =>
  simp only [Node.kind, Node.outputType, Node.field?, Node.fields] at hk hout hsd hed
  subst hk hout
  simp only [typeDict] at h1
  simp [stepNode, h1, mirrorOutput, Node.isKind, Node.kind, Node.setInputType, Node.setTypes, Node.inputType,
    Node.outputType, inferOutput, typeDict, typeUndefined_single, isNoneVal, inferFlatten, flattenShapes, getItem,
    Py.lookup, hsi, Node.field?, Node.fields, hsd, hed, Val.asInt?, hcount, Node.setOutputType, HasTypesK, hv, hfa,
    hwv, hwf, bind, Except.bind, pure, Except.pure]

/-- keyed: one loop body on an **Output** node (shape erased, right or wrong) -/
theorem stepNode_outputK (pre post : Node) (vo vi : Val) (s : List Int)
    (hk : post.kind = "Output")
    (hpo : pre.outputType = typeDict "output" vo) (hso : Spec.shapeOfVal vo = some s)
    (hpi : post.inputType = typeDict "input" vi) (hvi : PortVal vi) (hwo : WFShape vo) (hwi : WFShape vi) :
    (stepNode pre post).2 = none ∧ HasTypesK (stepNode pre post).1 (s, s) := by
  obtain ⟨v, h1, hv, hwv⟩ := inferInput_keyed pre post vo vi s hpo hso hpi hvi hwo hwi
  have hn : isNoneVal v = false := isNoneVal_of_shape v s hv
  cases post with
  | mk k f i o m c e =>
  simp only [Node.kind] at hk
  subst hk
  simp only [typeDict] at h1
  simp [stepNode, h1, mirrorOutput, Node.isKind, Node.kind, Node.setInputType, Node.setTypes, Node.inputType,
    Node.outputType, renameKeys, insertAll, Py.insert, inferOutput, Node.setOutputType, typeUndefined_single, hn,
    HasTypesK, typeDict, hv, hwv, replace_input, bind, Except.bind, pure, Except.pure]

/-- keyed: one loop body on a node whose output type is already defined -/
theorem stepNode_annotatedK (pre post : Node) (vo vi w : Val) (s t2 : List Int)
    (hk : post.kind ≠ "Output") (hout : post.outputType = typeDict "output" w) (hw : Spec.shapeOfVal w = some t2)
    (hww : WFShape w)
    (hpo : pre.outputType = typeDict "output" vo) (hso : Spec.shapeOfVal vo = some s)
    (hpi : post.inputType = typeDict "input" vi) (hvi : PortVal vi) (hwo : WFShape vo) (hwi : WFShape vi) :
    (stepNode pre post).2 = none ∧ HasTypesK (stepNode pre post).1 (s, t2) := by
  obtain ⟨v, h1, hv, hwv⟩ := inferInput_keyed pre post vo vi s hpo hso hpi hvi hwo hwi
  have hn : isNoneVal w = false := isNoneVal_of_shape w t2 hw
  cases post with
  | mk k f i o m c e =>
  simp only [Node.kind, Node.outputType] at hk hout
  subst hout
  have hk' : (k == "Output") = false := by simpa using hk
  simp only [typeDict] at h1
  simp [stepNode, h1, mirrorOutput, Node.isKind, Node.kind, Node.setInputType, Node.setTypes, Node.inputType,
    Node.outputType, inferOutput, hk', typeDict, typeUndefined_single, hn, HasTypesK, hv, hw, hwv, hww, pure, Except.pure]

end NirVerif.Lemmas
