import Mathlib.Data.Real.Basic
import Mathlib.Tactic.Linarith
import Mathlib.Tactic.Ring
import NirVerif.Model.EventLoop

/-! # The event loop of `lif_exact_sim.py` over ℝ: record events are transparent

`Model.EventLoop` is the literal loop (`pick` = loop head, `fire` = loop body).  Here the run
with an arbitrary recording interval (`R`) is related to the run that never records (`N`,
`record_dt = inf`) by a simulation: `R` is always at a state that lies on `N`'s current
trajectory segment, and every event other than a record is taken by both at the same instant with
the same outcome.  Everything is generic in the kernels `K`; only the two flow laws are used. -/
namespace NirVerif.Lemmas.EventLoop
open NirVerif.Model.EventLoop

/-- the two laws of an exact flow the loop's record-independence rests on -/
structure Flow (K : Kern ℝ) : Prop where
  zero : ∀ v I, K.adv v I 0 = v
  add : ∀ v I a b, K.adv (K.adv v I a) I b = K.adv v I (a + b)

variable (K : Kern ℝ) (inputs : List (ℝ × ℝ)) (dur : ℝ)

/-- the loop has been left (`while` condition false, or `break`) -/
def Halted (s : St ℝ) : Prop := pick dur s = none

/-- `R` (recording) sits on the trajectory segment of `N` (not recording) -/
structure Rel (sR sN : St ℝ) : Prop where
  idx : sR.idx = sN.idx
  amp : sR.amp = sN.amp
  nSpike : sR.nSpike = sN.nSpike
  nIn : sR.nIn = sN.nIn
  spikes : sR.spikes = sN.spikes
  nRecN : sN.nRec = none
  v : sR.v = K.adv sN.v sN.amp (sR.t - sN.t)
  live : sR.t ≤ dur ↔ sN.t ≤ dur

/-- `N`'s next event comes before a record scheduled at `T` (earlier, or a spike at the same instant) -/
def Before (sN : St ℝ) (T : ℝ) : Prop :=
  ∃ k' T', pick dur sN = some (k', T') ∧ (T' < T ∨ (T' = T ∧ k' = 0))

theorem Before.mono {sN : St ℝ} {T T' : ℝ} (h : Before dur sN T) (hT : T ≤ T') : Before dur sN T' := by
  obtain ⟨k, U, hp, hlt⟩ := h
  refine ⟨k, U, hp, ?_⟩
  rcases hlt with h1 | ⟨h1, h2⟩
  · exact Or.inl (lt_of_lt_of_le h1 hT)
  · rcases lt_or_eq_of_le hT with h3 | h3
    · exact Or.inl (h1 ▸ h3)
    · exact Or.inr ⟨h1.trans h3, h2⟩

/-! ## the choice of the next event -/

/-- what `np.argmin` over the three times says about the same choice without the record entry -/
theorem argmin3_cases (a b c : Option ℝ) (k : Nat) (m : Option ℝ) (h : argmin3 a b c = (k, m)) :
    (k = 1 ∧ ∃ Tr, b = some Tr ∧ m = some Tr ∧
        ∀ k' T', argmin3 a none c = (k', some T') → ¬ (T' < Tr ∨ (T' = Tr ∧ k' = 0))) ∨
    (k ≠ 1 ∧ argmin3 a none c = (k, m) ∧
        ∀ Tr T, b = some Tr → m = some T → (T < Tr ∨ (T = Tr ∧ k = 0))) := by
  rcases a with _ | a <;> rcases b with _ | b <;> rcases c with _ | c <;>
    simp only [argmin3, ltInf] at h ⊢ <;> grind

theorem pick_some {s : St ℝ} {k : Nat} {T : ℝ} (h : pick dur s = some (k, T)) :
    s.t ≤ dur ∧ T ≤ dur ∧ argmin3 s.nSpike s.nRec s.nIn = (k, some T) := by
  unfold pick at h
  split at h
  · rename_i ht
    split at h
    · rename_i k' T' hk
      split at h
      · exact absurd h (by simp)
      · rename_i hT
        simp only [Option.some.injEq, Prod.mk.injEq] at h
        obtain ⟨rfl, rfl⟩ := h
        exact ⟨ht, not_lt.mp hT, hk⟩
    · exact absurd h (by simp)
  · exact absurd h (by simp)

theorem pick_of {s : St ℝ} {k : Nat} {T : ℝ} (ht : s.t ≤ dur) (hT : T ≤ dur)
    (h : argmin3 s.nSpike s.nRec s.nIn = (k, some T)) : pick dur s = some (k, T) := by
  unfold pick
  rw [if_pos ht, h]
  simp only
  rw [if_neg (not_lt.mpr hT)]

theorem pick_none_of {s : St ℝ} (h : pick dur s = none) :
    ¬ s.t ≤ dur ∨ (∃ k, argmin3 s.nSpike s.nRec s.nIn = (k, none)) ∨
      (∃ k T, argmin3 s.nSpike s.nRec s.nIn = (k, some T) ∧ dur < T) := by
  by_cases ht : s.t ≤ dur
  · right
    rcases hk : argmin3 s.nSpike s.nRec s.nIn with ⟨k, _ | T⟩
    · exact Or.inl ⟨k, rfl⟩
    · right
      refine ⟨k, T, rfl, ?_⟩
      by_contra hT
      have := pick_of dur ht (not_lt.mp hT) hk
      rw [h] at this
      exact absurd this (by simp)
  · exact Or.inl ht

variable {K inputs dur}

/-- when `R` leaves the loop, so does `N` -/
theorem halted_of_rel {sR sN : St ℝ} (hrel : Rel K dur sR sN) (hp : Halted dur sR) : Halted dur sN := by
  unfold Halted at hp ⊢
  rcases pick_none_of dur hp with ht | ⟨k, hk⟩ | ⟨k, T, hk, hT⟩
  · unfold pick
    rw [if_neg (fun h' => ht (hrel.live.mpr h'))]
  · rcases hN : pick dur sN with _ | ⟨k', T'⟩
    · rfl
    · exfalso
      obtain ⟨_, _, hk'⟩ := pick_some dur hN
      rw [← hrel.nSpike, ← hrel.nIn, hrel.nRecN] at hk'
      rcases argmin3_cases _ _ _ _ _ hk with ⟨_, Tr, _, hm, _⟩ | ⟨_, hk2, _⟩
      · exact absurd hm (by simp)
      · rw [hk2] at hk'
        exact absurd hk' (by simp)
  · rcases hN : pick dur sN with _ | ⟨k', T'⟩
    · rfl
    · exfalso
      obtain ⟨_, hT', hk'⟩ := pick_some dur hN
      rw [← hrel.nSpike, ← hrel.nIn, hrel.nRecN] at hk'
      rcases argmin3_cases _ _ _ _ _ hk with ⟨_, Tr, hb, hm, hno⟩ | ⟨_, hk2, _⟩
      · simp only [Option.some.injEq] at hm
        subst hm
        exact hno k' T' hk' (Or.inl (lt_of_le_of_lt hT' hT))
      · rw [hk2] at hk'
        simp only [Prod.mk.injEq, Option.some.injEq] at hk'
        obtain ⟨_, rfl⟩ := hk'
        exact absurd hT (not_lt.mpr hT')

/-! ## the loop body -/

/-- a record event keeps `R` on `N`'s segment -/
theorem fire_record {d : Option ℝ} {sR sN sR' : St ℝ} {T : ℝ} (hF : Flow K) (hrel : Rel K dur sR sN)
    (hRt : sR.t ≤ dur) (hT : T ≤ dur) (h : fire K inputs d sR 1 T = some sR') :
    Rel K dur sR' sN ∧ sR'.recs = sR.recs ++ [(T, K.adv sN.v sN.amp (T - sN.t))] ∧
      sR'.nRec = addInf sR.nRec d := by
  simp only [fire, if_neg (by decide : ¬ (1 : Nat) = 0), if_pos, Option.some.injEq] at h
  subst h
  have hv : K.adv sR.v sR.amp (T - sR.t) = K.adv sN.v sN.amp (T - sN.t) := by
    rw [hrel.v, hrel.amp, hF.add]; congr 1; ring
  refine ⟨⟨hrel.idx, hrel.amp, hrel.nSpike, hrel.nIn, hrel.spikes, hrel.nRecN, hv, ?_⟩, ?_, rfl⟩
  · exact ⟨fun _ => hrel.live.mp hRt, fun _ => hT⟩
  · simp only [hv]

/-- a spike or input-change event is taken by both runs with the same outcome -/
theorem fire_other {d : Option ℝ} {sR sN sR' : St ℝ} {k : Nat} {T : ℝ} (hF : Flow K) (hrel : Rel K dur sR sN)
    (hk : k ≠ 1) (h : fire K inputs d sR k T = some sR') :
    ∃ sN', fire K inputs none sN k T = some sN' ∧ Rel K dur sR' sN' ∧ sR'.recs = sR.recs ∧ sR'.nRec = sR.nRec := by
  have hv : K.adv sR.v sR.amp (T - sR.t) = K.adv sN.v sN.amp (T - sN.t) := by
    rw [hrel.v, hrel.amp, hF.add]; congr 1; ring
  unfold fire at h ⊢
  by_cases hk0 : k = 0
  · simp only [if_pos hk0, Option.some.injEq] at h ⊢
    subst h
    refine ⟨_, rfl, ⟨hrel.idx, hrel.amp, ?_, hrel.nIn, ?_, hrel.nRecN, ?_, Iff.rfl⟩, rfl, rfl⟩
    · have hv' : K.adv sR.v sN.amp (T - sR.t) = K.adv sN.v sN.amp (T - sN.t) := hrel.amp ▸ hv
      simp only [hrel.amp, hv']
    · simp only [hrel.spikes]
    · simp only [hv, sub_self, hF.zero]
  · simp only [if_neg hk0, if_neg hk] at h ⊢
    rw [← hrel.idx]
    rcases hi : inputs[sR.idx]? with _ | ⟨t', a⟩
    · rw [hi] at h; exact absurd h (by simp)
    · rw [hi] at h
      simp only [Option.some.injEq] at h ⊢
      subst h
      refine ⟨_, rfl, ⟨rfl, rfl, ?_, rfl, hrel.spikes, hrel.nRecN, ?_, Iff.rfl⟩, rfl, rfl⟩
      · simp only [hv]
      · simp only [hv, sub_self, hF.zero]

/-! ## runs -/

theorem iter_succ' (d : Option ℝ) (n : Nat) (s : St ℝ) :
    iter K inputs d dur (n + 1) s = next K inputs d dur (iter K inputs d dur n s) := by
  induction n generalizing s with
  | zero => rfl
  | succ n ih => exact ih (next K inputs d dur s)

theorem next_of_halted {d : Option ℝ} {s : St ℝ} (h : Halted dur s) : next K inputs d dur s = s := by
  unfold Halted at h
  simp [next, step, h]

theorem iter_of_halted {d : Option ℝ} {s : St ℝ} (h : Halted dur s) (n : Nat) : iter K inputs d dur n s = s := by
  induction n with
  | zero => rfl
  | succ n ih => simp only [iter, next_of_halted h, ih]

theorem iter_add (d : Option ℝ) (a b : Nat) (s : St ℝ) :
    iter K inputs d dur (a + b) s = iter K inputs d dur b (iter K inputs d dur a s) := by
  induction a generalizing s with
  | zero => simp [iter]
  | succ a ih =>
    rw [Nat.succ_add]
    exact ih (next K inputs d dur s)

/-- once the loop is left, the state is final: two halted points of one run are the same state -/
theorem halted_unique {d : Option ℝ} {s : St ℝ} {a b : Nat}
    (ha : Halted dur (iter K inputs d dur a s)) (hb : Halted dur (iter K inputs d dur b s)) :
    iter K inputs d dur a s = iter K inputs d dur b s := by
  rcases Nat.le_total a b with h | h
  · obtain ⟨c, rfl⟩ := Nat.exists_eq_add_of_le h
    rw [iter_add, iter_of_halted ha]
  · obtain ⟨c, rfl⟩ := Nat.exists_eq_add_of_le h
    rw [iter_add, iter_of_halted hb]

variable (K inputs dur)

/-- index `m` is the first point of the `N` run whose next event does not come before a record at `T` -/
def First (sN0 : St ℝ) (m : Nat) (T : ℝ) : Prop :=
  (∀ j, j < m → Before dur (iter K inputs none dur j sN0) T) ∧ ¬ Before dur (iter K inputs none dur m sN0) T

variable {K inputs dur}

theorem First.unique {sN0 : St ℝ} {a b : Nat} {T : ℝ} (ha : First K inputs dur sN0 a T)
    (hb : First K inputs dur sN0 b T) : a = b := by
  rcases Nat.lt_trichotomy a b with h | h | h
  · exact absurd (hb.1 a h) ha.2
  · exact h
  · exact absurd (ha.1 b h) hb.2

variable (K inputs dur)

/-- the simulation invariant between the run with recording interval `d` after `n` iterations and
the run without recording after `m` iterations -/
structure Inv (d : Option ℝ) (sR0 sN0 : St ℝ) (n m : Nat) : Prop where
  rel : Rel K dur (iter K inputs d dur n sR0) (iter K inputs none dur m sN0)
  early : ∀ j, j < m → ∀ Tr, (iter K inputs d dur n sR0).nRec = some Tr →
            Before dur (iter K inputs none dur j sN0) Tr
  recs : ∀ p, p ∈ (iter K inputs d dur n sR0).recs → ∃ m', m' ≤ m ∧ First K inputs dur sN0 m' p.1 ∧
            p.2 = K.adv (iter K inputs none dur m' sN0).v (iter K inputs none dur m' sN0).amp
                    (p.1 - (iter K inputs none dur m' sN0).t)

variable {K inputs dur}

theorem inv_step {d : Option ℝ} {sR0 sN0 : St ℝ} (hF : Flow K) (hd : ∀ x, d = some x → 0 ≤ x) {n m : Nat}
    (h : Inv K inputs dur d sR0 sN0 n m) : ∃ m', m ≤ m' ∧ Inv K inputs dur d sR0 sN0 (n + 1) m' := by
  set sR := iter K inputs d dur n sR0 with hsR
  set sN := iter K inputs none dur m sN0 with hsN
  have hnext : iter K inputs d dur (n + 1) sR0 = next K inputs d dur sR := iter_succ' d n sR0
  rcases hstep : step K inputs d dur sR with _ | sR'
  · -- the loop was left (or the body failed): nothing moves
    refine ⟨m, le_refl m, ?_⟩
    have : iter K inputs d dur (n + 1) sR0 = sR := by rw [hnext]; simp [next, hstep]
    constructor
    · rw [this]; exact h.rel
    · rw [this]; exact h.early
    · rw [this]; exact h.recs
  · have hsR' : iter K inputs d dur (n + 1) sR0 = sR' := by rw [hnext]; simp [next, hstep]
    unfold step at hstep
    rcases hp : pick dur sR with _ | ⟨k, T⟩
    · rw [hp] at hstep; exact absurd hstep (by simp)
    · rw [hp] at hstep
      simp only at hstep
      obtain ⟨hRt, hT, hk⟩ := pick_some dur hp
      rcases argmin3_cases _ _ _ _ _ hk with ⟨h1, Tr, hb, hm, hno⟩ | ⟨hk1, hk2, hbef⟩
      · -- a record event: `N` stays where it is
        subst h1
        simp only [Option.some.injEq] at hm
        subst hm
        obtain ⟨hrel', hrecs', hnRec'⟩ := fire_record hF h.rel hRt hT hstep
        refine ⟨m, le_refl m, ?_⟩
        constructor
        · rw [hsR']; exact hrel'
        · intro j hj Tr' hTr'
          rw [hsR', hnRec', hb] at hTr'
          rcases d with _ | x
          · simp [addInf] at hTr'
          · simp only [addInf, Option.some.injEq] at hTr'
            subst hTr'
            exact (h.early j hj T hb).mono dur (by have := hd x rfl; linarith)
        · intro p hpm
          rw [hsR', hrecs'] at hpm
          rcases List.mem_append.mp hpm with hold | hnew
          · exact h.recs p hold
          · simp only [List.mem_singleton] at hnew
            subst hnew
            refine ⟨m, le_refl m, ⟨fun j hj => h.early j hj T hb, ?_⟩, rfl⟩
            rintro ⟨k', T', hpN, hlt⟩
            obtain ⟨_, _, hkN⟩ := pick_some dur hpN
            rw [← hsN] at hkN
            rw [← h.rel.nSpike, ← h.rel.nIn, h.rel.nRecN] at hkN
            exact hno k' T' hkN hlt
      · -- a spike or an input change: both runs take it
        obtain ⟨sN', hfN, hrel', hrecs', hnRec'⟩ := fire_other hF h.rel hk1 hstep
        have hpN : pick dur sN = some (k, T) := by
          refine pick_of dur (h.rel.live.mp hRt) hT ?_
          rw [← h.rel.nSpike, ← h.rel.nIn, h.rel.nRecN]; exact hk2
        have hsN' : iter K inputs none dur (m + 1) sN0 = sN' := by
          have hfN' : fire K inputs none sN k T = some sN' := hfN
          rw [iter_succ']; simp [next, step, ← hsN, hpN, hfN']
        refine ⟨m + 1, Nat.le_succ m, ?_⟩
        constructor
        · rw [hsR', hsN']; exact hrel'
        · intro j hj Tr hTr
          rw [hsR', hnRec'] at hTr
          rcases Nat.lt_succ_iff_lt_or_eq.mp hj with hj' | rfl
          · exact h.early j hj' Tr hTr
          · exact ⟨k, T, hpN, hbef Tr T hTr rfl⟩
        · intro p hpm
          rw [hsR', hrecs'] at hpm
          obtain ⟨m', hm', hfirst, hval⟩ := h.recs p hpm
          exact ⟨m', Nat.le_succ_of_le hm', hfirst, hval⟩

/-- **Simulation**: after any number of iterations the recording run is related to some point of
the non-recording run -/
theorem inv_all {d : Option ℝ} {sR0 sN0 : St ℝ} (hF : Flow K) (hd : ∀ x, d = some x → 0 ≤ x)
    (h0 : Rel K dur sR0 sN0) (hrecs : sR0.recs = []) (n : Nat) : ∃ m, Inv K inputs dur d sR0 sN0 n m := by
  induction n with
  | zero =>
    refine ⟨0, ?_⟩
    constructor
    · exact h0
    · intro j hj; exact absurd hj (Nat.not_lt_zero j)
    · intro p hp
      simp only [iter, hrecs] at hp
      exact absurd hp (by simp)
  | succ n ih =>
    obtain ⟨m, hm⟩ := ih
    obtain ⟨m', _, hm'⟩ := inv_step hF hd hm
    exact ⟨m', hm'⟩

end NirVerif.Lemmas.EventLoop
