import NirVerif.Model.Graph
import NirVerif.Generated.Whitelist
import Std.Data.String.ToNat
import NirVerif.Lemmas.Dict
namespace NirVerif.Lemmas.FromList
open NirVerif NirVerif.Py NirVerif.Model NirVerif.Lemmas

def baseNames : List String :=
  ["conv1d", "conv2d", "delay", "flatten", "input", "nirgraph", "output", "affine", "linear", "scale",
   "cubalif", "i", "if", "li", "lif", "avgpool2d", "sumpool2d", "threshold"]

theorem baseNames_eq : baseNames = NirVerif.Generated.whitelist.map String.toLower := by decide +kernel

theorem no_underscore : ∀ b ∈ baseNames, '_' ∉ b.toList := by decide +kernel

theorem split_at_sep {α} [DecidableEq α] (c : α) (l1 r1 l2 r2 : List α) (h1 : c ∉ l1) (h2 : c ∉ l2)
    (h : l1 ++ c :: r1 = l2 ++ c :: r2) : l1 = l2 ∧ r1 = r2 := by
  induction l1 generalizing l2 with
  | nil =>
    cases l2 with
    | nil => simpa using h
    | cons y ys =>
      simp at h
      exact absurd (h.1 ▸ List.mem_cons_self) h2
  | cons x xs ih =>
    cases l2 with
    | nil =>
      simp at h
      exact absurd (h.1 ▸ List.mem_cons_self) h1
    | cons y ys =>
      simp at h
      obtain ⟨rfl, h⟩ := h
      have := ih ys (fun hm => h1 (List.mem_cons_of_mem _ hm)) (fun hm => h2 (List.mem_cons_of_mem _ hm)) h
      exact ⟨by rw [this.1], this.2⟩

theorem toList_uniqueName (b : String) (k : Nat) :
    (uniqueName b k).toList = if k > 0 then b.toList ++ '_' :: Nat.toDigits 10 k else b.toList := by
  unfold uniqueName
  split
  · simp [Nat.toList_repr]
  · rfl

/-- The naming scheme is injective on (class, repetition index): two nodes get the same name
only if they are of the same class and carry the same index — for every repetition count. -/
theorem uniqueName_injective (b1 b2 : String) (k1 k2 : Nat) (h1 : b1 ∈ baseNames) (h2 : b2 ∈ baseNames)
    (h : uniqueName b1 k1 = uniqueName b2 k2) : b1 = b2 ∧ k1 = k2 := by
  have hl := congrArg String.toList h
  rw [toList_uniqueName, toList_uniqueName] at hl
  have n1 := no_underscore b1 h1
  have n2 := no_underscore b2 h2
  by_cases c1 : k1 > 0 <;> by_cases c2 : k2 > 0 <;> simp only [c1, c2, if_true, if_false] at hl
  · obtain ⟨e1, e2⟩ := split_at_sep '_' _ _ _ _ n1 n2 hl
    refine ⟨String.toList_injective e1, ?_⟩
    have : Nat.repr k1 = Nat.repr k2 := String.toList_injective (by rw [Nat.toList_repr, Nat.toList_repr, e2])
    exact Nat.repr_inj.mp this
  · exfalso; apply n2; rw [← hl]; simp
  · exfalso; apply n1; rw [hl]; simp
  · exact ⟨String.toList_injective hl, by omega⟩


/-! ## structure of the graph built by `from_list` -/

theorem assignNames_snd (ns : List Node) (c : List (String × Nat)) :
    (assignNames ns c).map Prod.snd = ns := by
  induction ns generalizing c with
  | nil => rfl
  | cons n rest ih => simp [assignNames, ih]

/-- every assigned name is `uniqueName base k` with `k` at least the counter value -/
theorem assignNames_form (ns : List Node) (c : List (String × Nat)) :
    ∀ p ∈ assignNames ns c, ∃ k, p.1 = uniqueName p.2.kind.toLower k ∧ (lookup p.2.kind.toLower c).getD 0 ≤ k ∧ p.2 ∈ ns := by
  induction ns generalizing c with
  | nil => intro p hp; cases hp
  | cons n rest ih =>
    intro p hp
    simp only [assignNames, List.mem_cons] at hp
    rcases hp with rfl | hp
    · exact ⟨_, rfl, Nat.le_refl _, List.mem_cons_self⟩
    · obtain ⟨k, h1, h2, h3⟩ := ih _ p hp
      refine ⟨k, h1, ?_, List.mem_cons_of_mem _ h3⟩
      by_cases hb : p.2.kind.toLower = n.kind.toLower
      · rw [hb] at h2 ⊢
        rw [lookup_insert_self] at h2
        simp at h2; omega
      · rw [lookup_insert_ne _ _ _ _ hb] at h2; exact h2

theorem whitelist_lower_mem (k : String) (h : k ∈ Generated.whitelist) : k.toLower ∈ baseNames := by
  rw [baseNames_eq]; exact List.mem_map.mpr ⟨k, h, rfl⟩

/-- names handed out are pairwise distinct, for every repetition pattern -/
theorem assignNames_nodup (ns : List Node) (c : List (String × Nat)) (hk : ∀ n ∈ ns, n.kind ∈ Generated.whitelist) :
    ((assignNames ns c).map Prod.fst).Nodup := by
  induction ns generalizing c with
  | nil => simp [assignNames]
  | cons n rest ih =>
    simp only [assignNames, List.map_cons, List.nodup_cons]
    refine ⟨?_, ih _ (fun m hm => hk m (List.mem_cons_of_mem _ hm))⟩
    intro hmem
    obtain ⟨p, hp, hpe⟩ := List.mem_map.mp hmem
    obtain ⟨k, h1, h2, h3⟩ := assignNames_form rest _ p hp
    rw [h1] at hpe
    have hb1 := whitelist_lower_mem _ (hk p.2 (List.mem_cons_of_mem _ h3))
    have hb2 := whitelist_lower_mem _ (hk n List.mem_cons_self)
    obtain ⟨e1, e2⟩ := uniqueName_injective _ _ _ _ hb1 hb2 hpe
    rw [e1, lookup_insert_self] at h2
    simp at h2; omega

theorem insertAll_append {α} (d l : List (String × α))
    (hnd : (l.map Prod.fst).Nodup) (hdis : ∀ k ∈ l.map Prod.fst, k ∉ d.map Prod.fst) :
    insertAll d l = d ++ l := by
  induction l generalizing d with
  | nil => simp [insertAll]
  | cons kv rest ih =>
    obtain ⟨k, v⟩ := kv
    simp only [List.map_cons, List.nodup_cons] at hnd
    have hk : k ∉ d.map Prod.fst := hdis k (by simp)
    simp only [insertAll, insert_of_not_mem k v d hk]
    rw [ih _ hnd.2]
    · simp
    · intro k' hk'
      simp only [List.map_append, List.map_cons, List.map_nil, List.mem_append, List.mem_singleton, not_or]
      refine ⟨hdis k' (by simp [hk']), ?_⟩
      rintro rfl; exact hnd.1 hk'


theorem construct_input_dict (kvs : List (String × Val)) (v : Val) (h : lookup "input" kvs = some v) :
    construct "Input" [("input_type", .dict kvs)]
      = .ok (Node.mk "Input" [] (.dict kvs) (typeDict "output" v) (.dict []) [] []) := by
  simp [construct, Generated.classFields, lookup, bindKwargs, bindAll, bindOne, hasKey, postInit, parseShapeArgument, getItem, h,
    bind, Except.bind, pure, Except.pure, List.mapM_cons, List.mapM_nil]

theorem construct_output_dict (kvs : List (String × Val)) (v : Val) (h : lookup "output" kvs = some v) :
    construct "Output" [("output_type", .dict kvs)]
      = .ok (Node.mk "Output" [] (typeDict "input" v) (.dict kvs) (.dict []) [] []) := by
  simp [construct, Generated.classFields, lookup, bindKwargs, bindAll, bindOne, hasKey, postInit, parseShapeArgument, getItem, h,
    bind, Except.bind, pure, Except.pure, List.mapM_cons, List.mapM_nil]

theorem kind_of_lower_input (k : String) (h : k ∈ Generated.whitelist) (hl : k.toLower = "input") : k = "Input" := by
  revert hl; revert k; decide +kernel

theorem kind_of_lower_output (k : String) (h : k ∈ Generated.whitelist) (hl : k.toLower = "output") : k = "Output" := by
  revert hl; revert k; decide +kernel

/-- names never collide with the reserved name `r` unless a node of the reserved class is present -/
theorem reserved_not_assigned (ns : List Node) (hk : ∀ n ∈ ns, n.kind ∈ Generated.whitelist)
    (r : String) (hr : r ∈ baseNames) (hno : ∀ n ∈ ns, n.kind.toLower ≠ r) :
    r ∉ (assignNames ns []).map Prod.fst := by
  intro hmem
  obtain ⟨p, hp, hpe⟩ := List.mem_map.mp hmem
  obtain ⟨k, h1, _, h3⟩ := assignNames_form ns [] p hp
  rw [h1] at hpe
  have hr0 : uniqueName r 0 = r := by simp [uniqueName]
  rw [← hr0] at hpe
  have := uniqueName_injective _ _ _ _ (whitelist_lower_mem _ (hk p.2 h3)) hr hpe
  exact hno p.2 h3 this.1



/-- the k-th repetition of a class gets index k -/
theorem names_scheme_aux (pre : List Node) (n : Node) (post : List Node) (c : List (String × Nat)) :
    ((assignNames (pre ++ n :: post) c).map Prod.fst)[pre.length]? =
      some (uniqueName n.kind.toLower ((lookup n.kind.toLower c).getD 0
        + pre.countP (fun m => m.kind.toLower == n.kind.toLower))) := by
  induction pre generalizing c with
  | nil => simp [assignNames]
  | cons m rest ih =>
    simp only [List.cons_append, assignNames, List.map_cons, List.length_cons, List.getElem?_cons_succ]
    rw [ih]
    by_cases hb : m.kind.toLower = n.kind.toLower
    · rw [hb, lookup_insert_self]
      simp only [List.countP_cons, hb, beq_self_eq_true, if_true, Option.getD_some]
      congr 2; omega
    · rw [lookup_insert_ne _ _ _ _ (Ne.symm hb)]
      have : (m.kind.toLower == n.kind.toLower) = false := by simp [hb]
      simp [List.countP_cons, this]

end NirVerif.Lemmas.FromList
