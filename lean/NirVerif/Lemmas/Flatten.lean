import NirVerif.Py.Basic
import NirVerif.Spec.Flatten

namespace NirVerif.Lemmas
open NirVerif

theorem prod_map_ofNat (l : List Nat) : Py.prod (l.map Int.ofNat) = (Spec.prodNat l : Int) := by
  induction l with
  | nil => rfl
  | cons x xs ih => simp [Py.prod, Spec.prodNat, ih]

theorem slice_map {α β : Type} (f : α → β) (l : List α) (a b : Option Int) :
    Py.slice (l.map f) a b = (Py.slice l a b).map f := by
  unfold Py.slice
  simp [List.map_take, List.map_drop]

theorem prodNat_append (a b : List Nat) : Spec.prodNat (a ++ b) = Spec.prodNat a * Spec.prodNat b := by
  induction a with
  | nil => simp [Spec.prodNat]
  | cons x xs ih => simp [Spec.prodNat, ih, Nat.mul_assoc]


theorem slice_to {α} (l : List α) (s : Int) (s' : Nat) (hs : Spec.normDim l.length s = s') (hle : s' ≤ l.length) :
    Py.slice l none (some s) = l.take s' := by
  unfold Py.slice Py.normBound Spec.normDim at *
  simp only [List.drop_zero, Nat.sub_zero]
  split at hs <;> rename_i h
  · rw [if_pos h]; congr 1; omega
  · rw [if_neg h]; congr 1; omega

theorem slice_from {α} (l : List α) (s : Int) (s' : Nat) (hs : Spec.normDim l.length s = s') (hle : s' ≤ l.length) :
    Py.slice l (some s) none = l.drop s' := by
  unfold Py.slice Py.normBound Spec.normDim at *
  simp only
  have : (if s < 0 then (s + ↑l.length).toNat else min s.toNat l.length) = s' := by
    split at hs <;> rename_i h
    · rw [if_pos h]; omega
    · rw [if_neg h]; omega
  rw [this]
  exact List.take_of_length_le (by simp)

theorem slice_mid {α} (l : List α) (s e : Int) (s' e' : Nat) (hs : Spec.normDim l.length s = s')
    (he : Spec.normDim l.length e = e') (hle : s' ≤ l.length) (hle' : e' ≤ l.length) :
    Py.slice l (some s) (some e) = (l.drop s').take (e' - s') := by
  unfold Py.slice Py.normBound Spec.normDim at *
  simp only
  have h1 : (if s < 0 then (s + ↑l.length).toNat else min s.toNat l.length) = s' := by
    split at hs <;> rename_i h
    · rw [if_pos h]; omega
    · rw [if_neg h]; omega
  have h2 : (if e < 0 then (e + ↑l.length).toNat else min e.toNat l.length) = e' := by
    split at he <;> rename_i h
    · rw [if_pos h]; omega
    · rw [if_neg h]; omega
  rw [h1, h2]


theorem flattenShape_split (shape : List Nat) (s e : Nat) (hse : s ≤ e) :
    shape = shape.take s ++ ((shape.drop s).take (e - s + 1)) ++ shape.drop (e + 1) := by
  have h1 : shape.drop (e + 1) = (shape.drop s).drop (e - s + 1) := by
    rw [List.drop_drop]; congr 1; omega
  rw [h1, List.append_assoc, List.take_append_drop, List.take_append_drop]

theorem prodNat_flattenShape (shape : List Nat) (s e : Nat) (hse : s ≤ e) :
    Spec.prodNat (Spec.flattenShape shape s e) = Spec.prodNat shape := by
  conv => rhs; rw [flattenShape_split shape s e hse]
  unfold Spec.flattenShape
  simp [prodNat_append, Spec.prodNat]

end NirVerif.Lemmas
