import NirVerif.Lemmas.ChildBack
/-
  `dict2NIRNode` on a graph dictionary, and the pieces of the graph-level round trip.
-/
namespace NirVerif.Lemmas
open NirVerif NirVerif.Py NirVerif.Model

def graphSpec : List (String × Option Val) := (lookup "NIRGraph" Generated.classFields).getD []

/-- `NIRGraph.from_dict` spelled out, given the three members it looks up -/
theorem fromDictFuel_graph (fuel : Nat) (D childDicts : List (String × Val)) (edgesV : Val)
    (ht : lookup "type" D = some (.str "NIRGraph")) (hn : lookup "nodes" D = some (.dict childDicts))
    (he : lookup "edges" D = some edgesV) :
    fromDictFuel (fuel + 1) (.dict D) =
      (childDicts.mapM fun (kv : String × Val) => (fromDictFuel fuel kv.2).map fun n => (kv.1, n)).bind fun children =>
      (decodeEdges edgesV).bind fun edges =>
      (bindKwargs graphSpec (Py.insert "edges" .none (Py.insert "nodes" .none (erase "type" D)))).bind fun bound =>
      .ok (mkGraph (insertAll [] children) edges ((lookup "metadata" bound).getD (.dict []))) := by
  have hc : Generated.whitelist.contains "NIRGraph" = true := by decide
  simp only [fromDictFuel, ht, hn, he, str2NIRNode, hc, if_true, bind, Except.bind, pure, Except.pure, graphSpec]
  rfl

/-- … and without an `edges` member it raises (after the children were looked at) -/
theorem fromDictFuel_graph_noedges (fuel : Nat) (D childDicts : List (String × Val))
    (ht : lookup "type" D = some (.str "NIRGraph")) (hn : lookup "nodes" D = some (.dict childDicts))
    (he : lookup "edges" D = none) :
    fromDictFuel (fuel + 1) (.dict D) =
      (childDicts.mapM fun (kv : String × Val) => (fromDictFuel fuel kv.2).map fun n => (kv.1, n)).bind fun _ =>
      .error .keyError := by
  have hc : Generated.whitelist.contains "NIRGraph" = true := by decide
  simp only [fromDictFuel, ht, hn, he, str2NIRNode, hc, if_true, bind, Except.bind, pure, Except.pure, throw, throwThe,
    MonadExceptOf.throw]
  rfl

/-- the children of the graph are rebuilt one by one, under their own names, in the order the
file lists them -/
theorem mapM_children_spec (fuel : Nat) (cd : List (String × Val)) (cs : List (String × Node))
    (h : (cd.mapM fun (kv : String × Val) => (fromDictFuel fuel kv.2).map fun n => (kv.1, n)) = .ok cs) :
    cs.map Prod.fst = cd.map Prod.fst ∧
    ∀ k v, lookup k cd = some v → ∃ n', lookup k cs = some n' ∧ fromDictFuel fuel v = .ok n' := by
  induction cd generalizing cs with
  | nil =>
    simp only [List.mapM_nil, pure, Except.pure, Except.ok.injEq] at h
    subst h
    exact ⟨rfl, fun k v hl => by simp [lookup] at hl⟩
  | cons kv rest ih =>
    obtain ⟨k0, v0⟩ := kv
    simp only [List.mapM_cons, bind, Except.bind] at h
    cases h0 : fromDictFuel fuel v0 with
    | error e => rw [h0] at h; cases h
    | ok n0 =>
      rw [h0] at h
      cases hr : (rest.mapM fun (kv : String × Val) => (fromDictFuel fuel kv.2).map fun n => (kv.1, n)) with
      | error e => rw [hr] at h; cases h
      | ok cs' =>
        rw [hr] at h
        have h' : cs = (k0, n0) :: cs' := by
          have : Except.ok ((k0, n0) :: cs') = Except.ok cs := h
          cases this; rfl
        subst h'
        obtain ⟨ih1, ih2⟩ := ih cs' hr
        refine ⟨by simp [ih1], ?_⟩
        intro k v hl
        simp only [lookup] at hl ⊢
        split
        · rename_i hk
          simp only [hk, if_true, Option.some.injEq] at hl
          subst hl
          exact ⟨n0, rfl, h0⟩
        · rename_i hk
          simp only [hk, if_false] at hl
          exact ih2 k v hl

theorem insertAll_append {α} (d l : List (String × α)) (hn : ((d ++ l).map Prod.fst).Nodup) :
    insertAll d l = d ++ l := by
  induction l generalizing d with
  | nil => simp [insertAll]
  | cons kv rest ih =>
    obtain ⟨k, v⟩ := kv
    have hnot : k ∉ d.map Prod.fst := by
      simp only [List.map_append, List.map_cons] at hn
      intro hm
      have := (List.nodup_append.mp hn).2.2 k hm k (List.mem_cons_self)
      exact this rfl
    simp only [insertAll]
    rw [insert_of_not_mem k v d hnot, ih]
    · simp
    · simpa using hn

theorem insertAll_nil {α} (l : List (String × α)) (hn : (l.map Prod.fst).Nodup) : insertAll [] l = l := by
  have := insertAll_append [] l (by simpa using hn)
  simpa using this

/-- `to_dict` of the children: same names, in order, each child's own dictionary -/
theorem toDictChildren_spec (children : List (String × Node)) (kids : List (String × Val))
    (h : toDict.toDictChildren children = .ok kids) :
    kids.map Prod.fst = children.map Prod.fst ∧
    ∀ k n, lookup k children = some n → ∃ d, toDict n = .ok d ∧ lookup k kids = some d := by
  induction children generalizing kids with
  | nil =>
    simp only [toDict.toDictChildren, pure, Except.pure, Except.ok.injEq] at h
    subst h
    exact ⟨rfl, fun k n hl => by simp [lookup] at hl⟩
  | cons kn rest ih =>
    obtain ⟨k0, n0⟩ := kn
    simp only [toDict.toDictChildren, bind, Except.bind] at h
    cases h0 : toDict n0 with
    | error e => simp [h0] at h
    | ok d0 =>
      simp only [h0] at h
      cases hr : toDict.toDictChildren rest with
      | error e => simp [hr] at h
      | ok ds =>
        simp only [hr, pure, Except.pure, Except.ok.injEq] at h
        subst h
        obtain ⟨ih1, ih2⟩ := ih ds hr
        refine ⟨by simp [ih1], ?_⟩
        intro k n hl
        simp only [lookup] at hl ⊢
        split
        · rename_i hk
          simp only [hk, if_true, Option.some.injEq] at hl
          subst hl
          exact ⟨d0, h0, rfl⟩
        · rename_i hk
          simp only [hk, if_false] at hl
          exact ih2 k n hl

/-- the keyword arguments `NIRGraph.from_dict` finally passes: `nodes`, `edges` and nothing else
when the file holds nothing else — the metadata is re-defaulted -/
theorem graph_bound (D : List (String × Val)) (hnodup : (D.map Prod.fst).Nodup)
    (hother : ∀ k, k ≠ "type" → k ≠ "nodes" → k ≠ "edges" → lookup k D = none) :
    ∃ bound, bindKwargs graphSpec (Py.insert "edges" .none (Py.insert "nodes" .none (erase "type" D))) = .ok bound ∧
      (lookup "metadata" bound).getD (.dict []) = .dict [] := by
  have hD : ∀ k, lookup k (Py.insert "edges" Val.none (Py.insert "nodes" Val.none (erase "type" D))) =
      lookup k [("nodes", Val.none), ("edges", Val.none)] := by
    intro k
    rw [lookup_insert_eq, lookup_insert_eq, lookup_erase_nodup _ _ _ hnodup]
    by_cases h1 : k = "edges"
    · subst h1; simp [lookup]
    · by_cases h2 : k = "nodes"
      · subst h2; simp [lookup]
      · have e1 : ("edges" == k) = false := by simpa using (Ne.symm h1)
        have e2 : ("nodes" == k) = false := by simpa using (Ne.symm h2)
        by_cases h3 : k = "type"
        · simp [h1, h2, h3, lookup]
        · simp [h1, h2, h3, lookup, e1, e2, hother k h3 h2 h1]
  rw [bindKwargs_congr _ [("nodes", Val.none), ("edges", Val.none)] graphSpec (by simp only [hD])
    (by intro p _; simp only [bindOne, hD])]
  exact ⟨_, rfl, rfl⟩

end NirVerif.Lemmas
