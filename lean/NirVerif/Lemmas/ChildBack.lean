import NirVerif.Lemmas.EndToEnd
import NirVerif.Model.Dict
/-
  What `dict2NIRNode` makes of the dictionary read back from the group that `write_recursive`
  created for one leaf node — for any amount of fuel (nesting depth bound), so that the lemmas
  apply to the children of a graph.
-/
namespace NirVerif.Lemmas
open NirVerif NirVerif.Py NirVerif.Model

/-- for the primitives without a class-specific `from_dict`, reading a dictionary is `cls(**d)`
after removing the type tag — at any fuel -/
theorem fromDictFuel_generic (fuel : Nat) (kvs : List (String × Val)) (kind : String)
    (ht : lookup "type" kvs = some (.str kind)) (hw : kind ∈ Generated.whitelist)
    (hgen : kind ≠ "Input" ∧ kind ≠ "Output" ∧ kind ≠ "Flatten" ∧ kind ≠ "NIRGraph") :
    fromDictFuel (fuel + 1) (.dict kvs) = construct kind (erase "type" kvs) := by
  have hc : Generated.whitelist.contains kind = true := by simpa using hw
  obtain ⟨h1, h2, h3, h4⟩ := hgen
  have e4 : (kind == "NIRGraph") = false := by simpa using h4
  simp only [fromDictFuel, ht, str2NIRNode, hc, if_true, bind, Except.bind, pure, Except.pure, e4,
    Bool.false_eq_true, if_false]

theorem lookup_type_append' (fields : List (String × Val)) (md : Val) (kind : String)
    (hnt : lookup "type" fields = none) :
    lookup "type" (fields ++ [("metadata", md), ("type", Val.str kind)]) = some (.str kind) := by
  rw [lookup_append, hnt]; rfl

/-- the type tag comes back as the same string -/
theorem type_back (fuel : Nat) (kvs : List (String × Val)) (items : List (String × H5)) (kind : String)
    (h : writeRecursiveFuel fuel kvs [] = .ok items) (hk : lookup "type" kvs = some (.str kind)) :
    lookup "type" (hdf2dict.hdf2dictItems items) = some (.str kind) := by
  obtain ⟨ds, hc, hl⟩ := write_lookup fuel kvs [] items h "type" (.str kind) hk (by decide) (by intro d hd; cases hd)
  rw [hdf2dict_lookup, hl]
  simp only [h5Create] at hc
  split at hc
  · cases hc
  · cases hc; rfl

/-- **A generic leaf node through the file**: `dict2NIRNode` of what is read back from the node's
group is the constructor on the transported field values. -/
theorem generic_child_back (fuel fuel' : Nat) (kind : String) (fields : List (String × Val))
    (hw : kind ∈ Generated.whitelist)
    (hk : kind ≠ "NIRGraph" ∧ kind ≠ "Input" ∧ kind ≠ "Output" ∧ kind ≠ "Flatten")
    (hnt : lookup "type" fields = none) (hnm : lookup "metadata" fields = none)
    (hnd : ∀ k v, lookup k fields = some v → ∀ d, v ≠ .dict d)
    (kw' : List (String × Val)) (hkw : ∀ k, lookup k kw' = (lookup k fields).bind backVal)
    (items : List (String × H5))
    (hnode : writeRecursiveFuel fuel' (fields ++ [("metadata", Val.dict []), ("type", Val.str kind)]) [] = .ok items) :
    fromDictFuel (fuel + 1) (.dict (hdf2dict.hdf2dictItems items)) = construct kind kw' := by
  generalize hkvs : fields ++ [("metadata", Val.dict []), ("type", Val.str kind)] = kvs at hnode
  have hlk : ∀ k, lookup k kvs = (lookup k fields).or (lookup k [("metadata", Val.dict []), ("type", Val.str kind)]) := by
    intro k; rw [← hkvs, lookup_append]
  have hmeta : ∀ kv ∈ kvs, kv.1 = "metadata" → kv.2 = .dict [] := by
    intro kv hm hkm
    rw [← hkvs] at hm
    rcases List.mem_append.mp hm with h1 | h1
    · exfalso
      have : (lookup "metadata" fields).isSome = true :=
        lookup_isSome_of_mem _ _ (by rw [← hkm]; exact List.mem_map_of_mem h1)
      rw [hnm] at this; cases this
    · simp only [List.mem_cons, List.mem_nil_iff, or_false] at h1
      rcases h1 with rfl | rfl
      · rfl
      · simp at hkm
  have hndk : ∀ k v, lookup k kvs = some v → k ≠ "metadata" → ∀ d, v ≠ .dict d := by
    intro k v hl hkm d hv
    rw [hlk] at hl
    cases hf : lookup k fields with
    | some v' => rw [hf] at hl; simp at hl; subst hl; exact hnd k v' hf d hv
    | none =>
      rw [hf] at hl
      simp only [Option.none_or, lookup] at hl
      split at hl
      · rename_i h1
        have : "metadata" = k := by simpa using h1
        exact hkm this.symm
      · split at hl
        · cases hl; cases hv
        · cases hl
  have hflat := flat_roundtrip _ kvs items hnode hmeta hndk
  have htype : lookup "type" (hdf2dict.hdf2dictItems items) = some (.str kind) :=
    type_back _ kvs items kind hnode (by rw [← hkvs]; exact lookup_type_append' fields _ kind hnt)
  have hnodup : ((hdf2dict.hdf2dictItems items).map Prod.fst).Nodup := by
    rw [hdf2dictItems_keys]; exact write_nodup _ kvs [] items hnode List.nodup_nil
  rw [fromDictFuel_generic fuel _ kind htype hw ⟨hk.2.1, hk.2.2.1, hk.2.2.2, hk.1⟩]
  have hD : ∀ k, lookup k (erase "type" (hdf2dict.hdf2dictItems items)) = lookup k kw' := by
    intro k
    rw [lookup_erase_nodup _ _ _ hnodup, hkw]
    by_cases hkt : k = "type"
    · subst hkt; simp [hnt]
    · simp only [hkt, if_false]
      rw [hflat]
      by_cases hkm : k = "metadata"
      · subst hkm; simp [hnm]
      · simp only [hkm, if_false, hlk]
        cases hf : lookup k fields with
        | some v' => simp
        | none =>
          simp only [Option.none_or, lookup]
          have e1 : ("metadata" == k) = false := by simpa using (Ne.symm hkm)
          have e2 : ("type" == k) = false := by simpa using (Ne.symm hkt)
          simp [e1, e2]
  unfold construct
  cases lookup kind Generated.classFields with
  | none => rfl
  | some spec =>
    simp only
    rw [bindKwargs_congr _ kw' spec (by simp only [hD]) (by intro p _; simp only [bindOne, hD])]

/-! ## Input / Output: the class-specific `from_dict` (`shape` → type dictionary) -/

theorem insert_keys {α} (k : String) (v : α) (d : List (String × α)) :
    (Py.insert k v d).map Prod.fst = if hasKey k d then d.map Prod.fst else d.map Prod.fst ++ [k] := by
  induction d with
  | nil => simp [Py.insert, hasKey, lookup]
  | cons kv rest ih =>
    obtain ⟨k0, v0⟩ := kv
    by_cases h0 : (k0 == k) = true
    · have e : k0 = k := by simpa using h0
      simp [Py.insert, hasKey, lookup, h0, e]
    · have h0' : (k0 == k) = false := by simpa using h0
      simp only [Py.insert, h0', Bool.false_eq_true, if_false, List.map_cons, ih, hasKey, lookup]
      split <;> simp_all

theorem insert_nodup {α} (k : String) (v : α) (d : List (String × α)) (hn : (d.map Prod.fst).Nodup) :
    ((Py.insert k v d).map Prod.fst).Nodup := by
  rw [insert_keys]
  split
  · exact hn
  · rename_i hh
    have hnot : k ∉ d.map Prod.fst := by
      intro hm
      have := lookup_isSome_of_mem k d hm
      simp [hasKey] at hh
      rw [hh] at this; cases this
    rw [List.nodup_append]
    exact ⟨hn, by simp, by intro a ha b hb; simp at hb; subst hb; intro e; subst e; exact hnot ha⟩

theorem erase_sublist {α} (k : String) (d : List (String × α)) : ((erase k d).map Prod.fst).Sublist (d.map Prod.fst) := by
  induction d with
  | nil => exact List.Sublist.refl _
  | cons kv rest ih =>
    obtain ⟨k0, v0⟩ := kv
    simp only [erase]
    split
    · exact List.Sublist.cons _ (List.Sublist.refl _)
    · exact List.Sublist.cons₂ _ ih

theorem erase_nodup {α} (k : String) (d : List (String × α)) (hn : (d.map Prod.fst).Nodup) :
    ((erase k d).map Prod.fst).Nodup := (erase_sublist k d).nodup hn

theorem lookup_insert_eq {α} (k k' : String) (v : α) (d : List (String × α)) :
    lookup k (Py.insert k' v d) = if k = k' then some v else lookup k d := by
  by_cases h : k = k'
  · subst h; simp [lookup_insert_self]
  · simp [h, lookup_insert_ne _ _ _ _ h]

/-- an Input (resp. Output) node through the file: `kw` is `input_type` / `output_type`, `port`
is `input` / `output` -/
theorem io_child_back (fuel fuel' : Nat) (kind kw port : String)
    (hkind : (kind = "Input" ∧ kw = "input_type" ∧ port = "input") ∨ (kind = "Output" ∧ kw = "output_type" ∧ port = "output"))
    (s s' : Val) (hs : ∀ d, s ≠ .dict d) (hb : backVal s = some s') (items : List (String × H5))
    (hnode : writeRecursiveFuel fuel' [("metadata", Val.dict []), ("type", Val.str kind), ("shape", s)] [] = .ok items) :
    fromDictFuel (fuel + 1) (.dict (hdf2dict.hdf2dictItems items)) = construct kind [(kw, typeDict port s')] := by
  generalize hkvs : [("metadata", Val.dict []), ("type", Val.str kind), ("shape", s)] = kvs at hnode
  have hmeta : ∀ kv ∈ kvs, kv.1 = "metadata" → kv.2 = .dict [] := by
    intro kv hm hkm
    rw [← hkvs] at hm
    simp only [List.mem_cons, List.mem_nil_iff, or_false] at hm
    rcases hm with rfl | rfl | rfl
    · rfl
    · simp at hkm
    · simp at hkm
  have hlk : ∀ k, lookup k kvs = if k = "metadata" then some (.dict []) else if k = "type" then some (.str kind)
      else if k = "shape" then some s else none := by
    intro k
    rw [← hkvs]
    simp only [lookup]
    by_cases h1 : k = "metadata"
    · subst h1; simp
    · have e1 : ("metadata" == k) = false := by simpa using (Ne.symm h1)
      simp only [e1, Bool.false_eq_true, if_false, h1]
      by_cases h2 : k = "type"
      · subst h2; simp
      · have e2 : ("type" == k) = false := by simpa using (Ne.symm h2)
        simp only [e2, Bool.false_eq_true, if_false, h2]
        by_cases h3 : k = "shape"
        · subst h3; simp
        · have e3 : ("shape" == k) = false := by simpa using (Ne.symm h3)
          simp [e3, h3]
  have hndk : ∀ k v, lookup k kvs = some v → k ≠ "metadata" → ∀ d, v ≠ .dict d := by
    intro k v hl hkm d hv
    rw [hlk] at hl
    simp only [hkm, if_false] at hl
    split at hl
    · cases hl; cases hv
    · split at hl
      · cases hl; exact hs d hv
      · cases hl
  have hflat := flat_roundtrip _ kvs items hnode hmeta hndk
  have htype : lookup "type" (hdf2dict.hdf2dictItems items) = some (.str kind) :=
    type_back _ kvs items kind hnode (by rw [hlk]; simp)
  have hshape : lookup "shape" (hdf2dict.hdf2dictItems items) = some s' := by
    rw [hflat, hlk]; simp [hb]
  have hnodup : ((hdf2dict.hdf2dictItems items).map Prod.fst).Nodup := by
    rw [hdf2dictItems_keys]; exact write_nodup _ kvs [] items hnode List.nodup_nil
  have hother : ∀ k, k ≠ "type" → k ≠ "shape" → lookup k (hdf2dict.hdf2dictItems items) = none := by
    intro k h1 h2
    rw [hflat, hlk]
    by_cases hm : k = "metadata"
    · simp [hm]
    · simp [hm, h1, h2]
  generalize hdf2dict.hdf2dictItems items = D at htype hshape hnodup hother
  rcases hkind with ⟨rfl, rfl, rfl⟩ | ⟨rfl, rfl, rfl⟩
  · have hc : Generated.whitelist.contains "Input" = true := by decide
    simp only [fromDictFuel, htype, hshape, str2NIRNode, hc, if_true, bind, Except.bind, pure, Except.pure]
    have e : ("Input" == "NIRGraph") = false := by decide
    simp only [e, Bool.false_eq_true, if_false]
    have hD : ∀ k, lookup k (erase "type" (erase "shape" (Py.insert "input_type" (typeDict "input" s') D))) =
        lookup k [("input_type", typeDict "input" s')] := by
      intro k
      have hn1 := insert_nodup "input_type" (typeDict "input" s') D hnodup
      have hn2 := erase_nodup "shape" _ hn1
      rw [lookup_erase_nodup _ _ _ hn2, lookup_erase_nodup _ _ _ hn1, lookup_insert_eq]
      by_cases h1 : k = "type"
      · subst h1; simp [lookup]
      · by_cases h2 : k = "shape"
        · subst h2; simp [lookup]
        · by_cases h3 : k = "input_type"
          · subst h3; simp [lookup]
          · have e3 : ("input_type" == k) = false := by simpa using (Ne.symm h3)
            simp [h1, h2, h3, hother k h1 h2, lookup, e3]
    unfold construct
    cases lookup "Input" Generated.classFields with
    | none => rfl
    | some spec =>
      simp only
      rw [bindKwargs_congr _ [("input_type", typeDict "input" s')] spec (by simp only [hD]) (by intro p _; simp only [bindOne, hD])]
  · have hc : Generated.whitelist.contains "Output" = true := by decide
    simp only [fromDictFuel, htype, hshape, str2NIRNode, hc, if_true, bind, Except.bind, pure, Except.pure]
    have e : ("Output" == "NIRGraph") = false := by decide
    simp only [e, Bool.false_eq_true, if_false]
    have hD : ∀ k, lookup k (erase "type" (erase "shape" (Py.insert "output_type" (typeDict "output" s') D))) =
        lookup k [("output_type", typeDict "output" s')] := by
      intro k
      have hn1 := insert_nodup "output_type" (typeDict "output" s') D hnodup
      have hn2 := erase_nodup "shape" _ hn1
      rw [lookup_erase_nodup _ _ _ hn2, lookup_erase_nodup _ _ _ hn1, lookup_insert_eq]
      by_cases h1 : k = "type"
      · subst h1; simp [lookup]
      · by_cases h2 : k = "shape"
        · subst h2; simp [lookup]
        · by_cases h3 : k = "output_type"
          · subst h3; simp [lookup]
          · have e3 : ("output_type" == k) = false := by simpa using (Ne.symm h3)
            simp [h1, h2, h3, hother k h1 h2, lookup, e3]
    unfold construct
    cases lookup "Output" Generated.classFields with
    | none => rfl
    | some spec =>
      simp only
      rw [bindKwargs_congr _ [("output_type", typeDict "output" s')] spec (by simp only [hD]) (by intro p _; simp only [bindOne, hD])]

/-! ## Flatten: `input_type` is stored as the bare shape and re-wrapped by `from_dict` -/

theorem flatten_child_back (fuel fuel' : Nat) (fields : List (String × Val))
    (hnt : lookup "type" fields = none) (hnm : lookup "metadata" fields = none)
    (hnit : lookup "input_type" fields = none)
    (hnd : ∀ k v, lookup k fields = some v → ∀ d, v ≠ .dict d)
    (s s' : Val) (hs : ∀ d, s ≠ .dict d) (hb : backVal s = some s')
    (kw' : List (String × Val))
    (hkw : ∀ k, lookup k kw' = if k = "input_type" then some (typeDict "input" s') else (lookup k fields).bind backVal)
    (items : List (String × H5))
    (hnode : writeRecursiveFuel fuel' (fields ++ [("metadata", Val.dict []), ("type", Val.str "Flatten"), ("input_type", s)]) []
      = .ok items) :
    fromDictFuel (fuel + 1) (.dict (hdf2dict.hdf2dictItems items)) = construct "Flatten" kw' := by
  generalize hkvs : fields ++ [("metadata", Val.dict []), ("type", Val.str "Flatten"), ("input_type", s)] = kvs at hnode
  have htail : ∀ k, lookup k [("metadata", Val.dict []), ("type", Val.str "Flatten"), ("input_type", s)] =
      if k = "metadata" then some (.dict []) else if k = "type" then some (.str "Flatten")
      else if k = "input_type" then some s else none := by
    intro k
    simp only [lookup]
    by_cases h1 : k = "metadata"
    · subst h1; simp
    · have e1 : ("metadata" == k) = false := by simpa using (Ne.symm h1)
      simp only [e1, Bool.false_eq_true, if_false, h1]
      by_cases h2 : k = "type"
      · subst h2; simp
      · have e2 : ("type" == k) = false := by simpa using (Ne.symm h2)
        simp only [e2, Bool.false_eq_true, if_false, h2]
        by_cases h3 : k = "input_type"
        · subst h3; simp
        · have e3 : ("input_type" == k) = false := by simpa using (Ne.symm h3)
          simp [e3, h3]
  have hlk : ∀ k, lookup k kvs = (lookup k fields).or (if k = "metadata" then some (.dict []) else if k = "type" then
      some (.str "Flatten") else if k = "input_type" then some s else none) := by
    intro k; rw [← hkvs, lookup_append, htail]
  have hmeta : ∀ kv ∈ kvs, kv.1 = "metadata" → kv.2 = .dict [] := by
    intro kv hm hkm
    rw [← hkvs] at hm
    rcases List.mem_append.mp hm with h1 | h1
    · exfalso
      have : (lookup "metadata" fields).isSome = true :=
        lookup_isSome_of_mem _ _ (by rw [← hkm]; exact List.mem_map_of_mem h1)
      rw [hnm] at this; cases this
    · simp only [List.mem_cons, List.mem_nil_iff, or_false] at h1
      rcases h1 with rfl | rfl | rfl <;> first | rfl | simp at hkm
  have hndk : ∀ k v, lookup k kvs = some v → k ≠ "metadata" → ∀ d, v ≠ .dict d := by
    intro k v hl hkm d hv
    rw [hlk] at hl
    cases hf : lookup k fields with
    | some v' => rw [hf] at hl; simp at hl; subst hl; exact hnd k v' hf d hv
    | none =>
      rw [hf] at hl
      simp only [Option.none_or, hkm, if_false] at hl
      split at hl
      · cases hl; cases hv
      · split at hl
        · cases hl; exact hs d hv
        · cases hl
  have hflat := flat_roundtrip _ kvs items hnode hmeta hndk
  have htype : lookup "type" (hdf2dict.hdf2dictItems items) = some (.str "Flatten") :=
    type_back _ kvs items "Flatten" hnode (by rw [hlk, hnt]; simp)
  have hit : lookup "input_type" (hdf2dict.hdf2dictItems items) = some s' := by
    rw [hflat, hlk, hnit]; simp [hb]
  have hnodup : ((hdf2dict.hdf2dictItems items).map Prod.fst).Nodup := by
    rw [hdf2dictItems_keys]; exact write_nodup _ kvs [] items hnode List.nodup_nil
  generalize hdf2dict.hdf2dictItems items = D at htype hit hnodup hflat
  have hc : Generated.whitelist.contains "Flatten" = true := by decide
  simp only [fromDictFuel, htype, hit, str2NIRNode, hc, if_true, bind, Except.bind, pure, Except.pure, Option.getD_some]
  have e : ("Flatten" == "NIRGraph") = false := by decide
  simp only [e, Bool.false_eq_true, if_false]
  have hD : ∀ k, lookup k (erase "type" (Py.insert "input_type" (typeDict "input" s') D)) = lookup k kw' := by
    intro k
    have hn1 := insert_nodup "input_type" (typeDict "input" s') D hnodup
    rw [lookup_erase_nodup _ _ _ hn1, lookup_insert_eq, hkw]
    by_cases h1 : k = "type"
    · subst h1; simp [hnt]
    · by_cases h3 : k = "input_type"
      · subst h3; simp
      · simp only [h1, h3, if_false]
        rw [hflat, hlk]
        by_cases hm : k = "metadata"
        · subst hm; simp [hnm]
        · simp only [hm, if_false, h1, h3]
          cases lookup k fields <;> simp
  unfold construct
  cases lookup "Flatten" Generated.classFields with
  | none => rfl
  | some spec =>
    simp only
    rw [bindKwargs_congr _ kw' spec (by simp only [hD]) (by intro p _; simp only [bindOne, hD])]

end NirVerif.Lemmas
