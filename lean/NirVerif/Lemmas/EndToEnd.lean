import NirVerif.Lemmas.FileForm
/-
  Ingredients of the end-to-end round trip of a leaf node: the constructor sees its keyword
  arguments only through `lookup`, so the order in which the file returns the members, and the
  omission of an empty `metadata`, do not matter.
-/
namespace NirVerif.Lemmas
open NirVerif NirVerif.Py NirVerif.Model

/-! ## keyword binding depends on the dictionary only through `lookup` -/

theorem bindAll_congr (kw1 kw2 : List (String × Val)) (spec : List (String × Option Val))
    (h : ∀ p ∈ spec, bindOne kw1 p = bindOne kw2 p) : bindAll kw1 spec = bindAll kw2 spec := by
  induction spec with
  | nil => rfl
  | cons p rest ih =>
    simp only [bindAll]
    rw [h p List.mem_cons_self, ih (fun q hq => h q (List.mem_cons_of_mem _ hq))]

theorem lookup_isSome_iff_mem {α} (k : String) (d : List (String × α)) :
    (lookup k d).isSome = true ↔ k ∈ d.map Prod.fst := by
  constructor
  · intro h
    by_cases hm : k ∈ d.map Prod.fst
    · exact hm
    · rw [lookup_eq_none_of_not_mem k d hm] at h; cases h
  · exact lookup_isSome_of_mem k d

theorem any_keys (kw : List (String × Val)) (p : String → Bool) :
    kw.any (fun kv => p kv.1) = true ↔ ∃ k, (lookup k kw).isSome = true ∧ p k = true := by
  simp only [List.any_eq_true]
  constructor
  · rintro ⟨kv, hm, hp⟩
    exact ⟨kv.1, (lookup_isSome_iff_mem _ _).mpr (List.mem_map_of_mem hm), hp⟩
  · rintro ⟨k, hs, hp⟩
    obtain ⟨kv, hm, rfl⟩ := List.mem_map.mp ((lookup_isSome_iff_mem _ _).mp hs)
    exact ⟨kv, hm, hp⟩

/-- two keyword dictionaries with the same keys-in-spec verdict and the same binding of every
field are the same call -/
theorem bindKwargs_congr (kw1 kw2 : List (String × Val)) (spec : List (String × Option Val))
    (hkeys : (∃ k, (lookup k kw1).isSome = true ∧ hasKey k spec = false) ↔
             (∃ k, (lookup k kw2).isSome = true ∧ hasKey k spec = false))
    (h : ∀ p ∈ spec, bindOne kw1 p = bindOne kw2 p) : bindKwargs spec kw1 = bindKwargs spec kw2 := by
  unfold bindKwargs
  have e : kw1.any (fun kv => !(hasKey kv.1 spec)) = kw2.any (fun kv => !(hasKey kv.1 spec)) := by
    rw [Bool.eq_iff_iff, any_keys kw1 (fun k => !(hasKey k spec)), any_keys kw2 (fun k => !(hasKey k spec))]
    simpa using hkeys
  rw [e, bindAll_congr kw1 kw2 spec h]

/-! ## the file side: a flat dictionary comes back entry by entry, an empty `metadata` is dropped -/

/-- every `metadata` entry being the empty dictionary, no `metadata` member is created -/
theorem write_skip_meta (fuel : Nat) (kvs : List (String × Val)) (acc items : List (String × H5))
    (h : writeRecursiveFuel fuel kvs acc = .ok items)
    (hmeta : ∀ kv ∈ kvs, kv.1 = "metadata" → kv.2 = .dict []) :
    lookup "metadata" items = lookup "metadata" acc := by
  induction kvs generalizing fuel acc with
  | nil => cases fuel <;> simp [writeRecursiveFuel] at h <;> subst h <;> rfl
  | cons kv rest ih =>
    obtain ⟨k0, v0⟩ := kv
    have hrest : ∀ kv ∈ rest, kv.1 = "metadata" → kv.2 = .dict [] := fun kv hm => hmeta kv (List.mem_cons_of_mem _ hm)
    cases fuel with
    | zero => simp [writeRecursiveFuel] at h
    | succ fuel =>
      simp only [writeRecursiveFuel] at h
      split at h
      · cases h
      · split at h
        · cases h
        · exact ih _ _ h hrest
        · split at h
          · cases h
          · rename_i _ _ item _ acc' ha
            rw [ih _ _ h hrest, (addMember_lookup _ _ _ _ ha "metadata").1]
            split
            · rename_i hk
              -- the member is called `metadata`: then its value was the empty dictionary, which is skipped
              have hv0 := hmeta (k0, v0) List.mem_cons_self hk.symm
              simp only at hv0
              subst hv0
              subst hk
              simp at item
            · rfl

/-- the value a reader hands to the constructor for a stored value -/
def backVal (v : Val) : Option Val := (h5Create v).map h5Load

/-- **A flat dictionary through the file**: every non-`metadata` key comes back with the
transported value, nothing else appears, and the (empty) `metadata` is absent. -/
theorem flat_roundtrip (fuel : Nat) (kvs : List (String × Val)) (items : List (String × H5))
    (h : writeRecursiveFuel fuel kvs [] = .ok items)
    (hmeta : ∀ kv ∈ kvs, kv.1 = "metadata" → kv.2 = .dict [])
    (hnd : ∀ k v, lookup k kvs = some v → k ≠ "metadata" → ∀ d, v ≠ .dict d) (k : String) :
    lookup k (hdf2dict.hdf2dictItems items) =
      if k = "metadata" then none else (lookup k kvs).bind backVal := by
  rw [hdf2dict_lookup]
  by_cases hk : k = "metadata"
  · subst hk
    rw [write_skip_meta fuel kvs [] items h hmeta]
    simp [lookup]
  · simp only [hk, if_false]
    cases hl : lookup k kvs with
    | none =>
      rw [write_no_extra fuel kvs [] items h k hl]
      simp [lookup]
    | some v =>
      obtain ⟨ds, hc, hi⟩ := write_lookup fuel kvs [] items h k v hl hk (hnd k v hl hk)
      rw [hi]
      simp [backVal, hc, hdf2dict]

/-! ## link names in a written group are pairwise distinct -/

theorem insertSorted_perm (name : String) (item : H5) (acc : List (String × H5)) :
    ((insertSorted name item acc).map Prod.fst).Perm (name :: acc.map Prod.fst) := by
  induction acc with
  | nil => exact List.Perm.refl _
  | cons kv rest ih =>
    obtain ⟨k0, v0⟩ := kv
    simp only [insertSorted]
    split
    · exact List.Perm.refl _
    · simp only [List.map_cons]
      exact (List.Perm.cons k0 ih).trans (List.Perm.swap name k0 _)

theorem addMember_nodup (k : String) (item : H5) (acc acc' : List (String × H5))
    (h : addMember k item acc = .ok acc') (hn : (acc.map Prod.fst).Nodup) : (acc'.map Prod.fst).Nodup := by
  have hfresh := (addMember_lookup k item acc acc' h k).2
  unfold addMember at h
  split at h
  · cases h
  · split at h
    · rename_i hi
      cases h
      unfold h5Insert at hi
      split at hi
      · cases hi
      · cases hi
        have hnot : k ∉ acc.map Prod.fst := by
          intro hm
          have := lookup_isSome_of_mem k acc hm
          rw [hfresh] at this; cases this
        exact (insertSorted_perm k item acc).nodup_iff.mpr (List.nodup_cons.mpr ⟨hnot, hn⟩)
    · cases h

theorem write_nodup (fuel : Nat) (kvs : List (String × Val)) (acc items : List (String × H5))
    (h : writeRecursiveFuel fuel kvs acc = .ok items) (hn : (acc.map Prod.fst).Nodup) :
    (items.map Prod.fst).Nodup := by
  induction kvs generalizing fuel acc with
  | nil => cases fuel <;> simp [writeRecursiveFuel] at h <;> subst h <;> exact hn
  | cons kv rest ih =>
    obtain ⟨k0, v0⟩ := kv
    cases fuel with
    | zero => simp [writeRecursiveFuel] at h
    | succ fuel =>
      simp only [writeRecursiveFuel] at h
      split at h
      · cases h
      · split at h
        · cases h
        · exact ih _ _ h hn
        · split at h
          · cases h
          · rename_i acc' ha
            exact ih _ _ h (addMember_nodup _ _ _ _ ha hn)

theorem hdf2dictItems_keys (items : List (String × H5)) :
    (hdf2dict.hdf2dictItems items).map Prod.fst = items.map Prod.fst := by
  induction items with
  | nil => rfl
  | cons kv rest ih => obtain ⟨k0, v0⟩ := kv; simp [hdf2dict.hdf2dictItems, ih]

theorem lookup_erase_nodup {α} (k k' : String) (d : List (String × α)) (hn : (d.map Prod.fst).Nodup) :
    lookup k (erase k' d) = if k = k' then none else lookup k d := by
  induction d with
  | nil => simp [erase, lookup]
  | cons kv rest ih =>
    obtain ⟨k0, v0⟩ := kv
    simp only [List.map_cons, List.nodup_cons] at hn
    by_cases h0 : (k0 == k') = true
    · have e0 : k0 = k' := by simpa using h0
      subst e0
      simp only [erase, h0, if_true]
      by_cases hk : k = k0
      · subst hk
        simp only [if_true]
        exact lookup_eq_none_of_not_mem k rest hn.1
      · have : (k0 == k) = false := by simpa using (Ne.symm hk)
        simp [lookup, this, hk]
    · have h0' : (k0 == k') = false := by simpa using h0
      simp only [erase, h0', Bool.false_eq_true, if_false, lookup]
      by_cases hk0 : (k0 == k) = true
      · have e : k0 = k := by simpa using hk0
        subst e
        have : ¬ k0 = k' := by simpa using h0'
        simp [this]
      · simp only [hk0, Bool.false_eq_true, if_false]
        exact ih hn.2

theorem lookup_append {α} (k : String) (a b : List (String × α)) :
    lookup k (a ++ b) = (lookup k a).or (lookup k b) := by
  induction a with
  | nil => simp [lookup]
  | cons kv rest ih =>
    obtain ⟨k0, v0⟩ := kv
    simp only [List.cons_append, lookup]
    split
    · rfl
    · exact ih

end NirVerif.Lemmas
