import NirVerif.Lemmas.Inference
import NirVerif.Lemmas.Dict

/-! # Inference sees the node dictionary through look-ups only

Two runs of the work-list from node tables that answer every look-up alike — e.g. the same dictionary in two orders — go
through the same edges in the same order, raise the same error (if any) and end in tables that again answer every look-up
alike.  Proved by a relational induction over the work-list (`workList_rel`), whose stack and `seen` set do not depend on the
state at all. -/
namespace NirVerif.Lemmas
open NirVerif NirVerif.Py NirVerif.Model

/-- relational induction over the work-list: a relation between two states that every step preserves — with equal errors —
holds between the final states, and the runs end with the same `seen` set and the same error -/
theorem workList_rel {σ ε : Type} (edges : List Edge) (step : σ → String → String → σ × Option ε) (R : σ → σ → Prop)
    (hstep : ∀ a b pre post, R a b → R (step a pre post).1 (step b pre post).1 ∧ (step a pre post).2 = (step b pre post).2)
    (a : σ) (stack : List {e : Edge // e ∈ edges}) (seen : List String) :
    ∀ b, R a b →
      R (workList edges step a stack seen).1 (workList edges step b stack seen).1 ∧
      (workList edges step a stack seen).2 = (workList edges step b stack seen).2 := by
  fun_induction workList edges step a stack seen with
  | case1 st seen =>
    intro b hab
    rw [workList]
    exact ⟨hab, rfl⟩
  | case2 st seen pre post hmem rest st' e hs =>
    intro b hab
    obtain ⟨h1, h2⟩ := hstep st b pre post hab
    rw [hs] at h1 h2
    rw [workList]
    cases hb : step b pre post with
    | mk sb eb =>
      rw [hb] at h1 h2
      simp only at h1 h2
      subst h2
      exact ⟨h1, rfl⟩
  | case3 st seen pre post hmem rest st' hs ih =>
    intro b hab
    obtain ⟨h1, h2⟩ := hstep st b pre post hab
    rw [hs] at h1 h2
    cases hb : step b pre post with
    | mk sb eb =>
      rw [hb] at h1 h2
      simp only at h1 h2
      subst h2
      rw [workList, hb]
      exact ih sb h1

/-- two node tables that answer every look-up alike -/
def SameLookups (n1 n2 : Nodes) : Prop := ∀ k, lookup k n1 = lookup k n2

theorem sameLookups_insert (n1 n2 : Nodes) (h : SameLookups n1 n2) (key : String) (v : Node) :
    SameLookups (Py.insert key v n1) (Py.insert key v n2) := by
  intro k
  by_cases hk : k = key
  · subst hk; rw [lookup_insert_self, lookup_insert_self]
  · rw [lookup_insert_ne _ _ _ _ hk, lookup_insert_ne _ _ _ _ hk, h k]

/-- one loop body: same error, and the tables still answer alike -/
theorem processEdge_rel (n1 n2 : Nodes) (pre post : String) (h : SameLookups n1 n2) :
    SameLookups (processEdge n1 pre post).1 (processEdge n2 pre post).1 ∧
    (processEdge n1 pre post).2 = (processEdge n2 pre post).2 := by
  unfold processEdge
  rw [h pre, h post]
  cases lookup pre n2 with
  | none => exact ⟨h, rfl⟩
  | some p =>
    cases lookup post n2 with
    | none => exact ⟨h, rfl⟩
    | some q =>
      simp only
      split
      · exact ⟨h, rfl⟩
      · exact ⟨sameLookups_insert n1 n2 h post _, rfl⟩

theorem contains_congr (i1 i2 : List String) (hi : ∀ x, x ∈ i1 ↔ x ∈ i2) (x : String) : i1.contains x = i2.contains x := by
  by_cases h : x ∈ i1
  · have h2 := (hi x).mp h
    simp [h, h2]
  · have h2 : x ∉ i2 := fun hx => h ((hi x).mpr hx)
    simp [h, h2]

theorem initialStack_congr (edges : List Edge) (i1 i2 : List String) (hi : ∀ x, x ∈ i1 ↔ x ∈ i2) :
    initialStack edges i1 = initialStack edges i2 := by
  unfold initialStack
  congr 2
  funext e
  exact contains_congr i1 i2 hi _

theorem initialSeen_congr (edges : List Edge) (i1 i2 : List String) (hi : ∀ x, x ∈ i1 ↔ x ∈ i2) :
    initialSeen edges i1 = initialSeen edges i2 := by
  unfold initialSeen
  congr 2
  funext e
  exact contains_congr i1 i2 hi _

/-- **the whole forward pass**: from tables that answer alike and input sets with the same members -/
theorem forward_rel (edges : List Edge) (c1 c2 : Nodes) (hl : SameLookups c1 c2) (i1 i2 : List String)
    (hi : ∀ x, x ∈ i1 ↔ x ∈ i2) :
    SameLookups (workList edges processEdge c1 (initialStack edges i1) (initialSeen edges i1)).1
                (workList edges processEdge c2 (initialStack edges i2) (initialSeen edges i2)).1 ∧
    (workList edges processEdge c1 (initialStack edges i1) (initialSeen edges i1)).2 =
    (workList edges processEdge c2 (initialStack edges i2) (initialSeen edges i2)).2 := by
  rw [initialStack_congr edges i1 i2 hi, initialSeen_congr edges i1 i2 hi]
  exact workList_rel edges processEdge SameLookups (fun a b pre post h => processEdge_rel a b pre post h) c1 _ _ c2 hl

end NirVerif.Lemmas
