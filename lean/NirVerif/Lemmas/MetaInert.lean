import NirVerif.Lemmas.Construct
import NirVerif.Model.Graph
/-
  The loop body of the inference neither reads nor writes metadata: running it on nodes whose
  metadata was replaced gives the same result with the replaced metadata.
-/
namespace NirVerif.Lemmas
open NirVerif NirVerif.Py NirVerif.Model

theorem inferInput_setMeta (pre post : Node) (m1 m2 : Val) :
    inferInput (Node.setMeta pre m1) (Node.setMeta post m2) = (inferInput pre post).map (fun n => Node.setMeta n m2) := by
  cases pre; cases post
  simp only [Node.setMeta, inferInput, needsInput, Node.outputType, Node.inputType, Node.setInputType, Node.setTypes]
  repeat' split
  all_goals simp_all [Except.map, Node.setMeta]

theorem mirrorOutput_setMeta (post : Node) (m : Val) :
    mirrorOutput (Node.setMeta post m) = (mirrorOutput post).map (fun n => Node.setMeta n m) := by
  cases post with
  | mk k f i o md c e =>
  simp only [Node.setMeta, mirrorOutput, Node.isKind, Node.kind, Node.inputType, Node.setOutputType, Node.setTypes,
    bind, Except.bind, pure, Except.pure]
  by_cases hk : (k == "Output") = true
  · simp only [hk, if_true]
    cases renameKeys "input" "output" i <;> rfl
  · simp only [hk, Bool.false_eq_true, if_false]; rfl

theorem setMeta_kind (p : Node) (m : Val) : (Node.setMeta p m).kind = p.kind := by cases p; rfl
theorem setMeta_inputType (p : Node) (m : Val) : (Node.setMeta p m).inputType = p.inputType := by cases p; rfl
theorem setMeta_outputType (p : Node) (m : Val) : (Node.setMeta p m).outputType = p.outputType := by cases p; rfl
theorem setMeta_field (p : Node) (m : Val) (k : String) : (Node.setMeta p m).field? k = p.field? k := by cases p; rfl
theorem setMeta_isKind (p : Node) (m : Val) (k : String) : (Node.setMeta p m).isKind k = p.isKind k := by cases p; rfl
theorem setMeta_setField (p : Node) (m : Val) (k : String) (v : Val) :
    (Node.setMeta p m).setField k v = Node.setMeta (p.setField k v) m := by cases p; rfl
theorem setMeta_setOutputType (p : Node) (m : Val) (t : Val) :
    (Node.setMeta p m).setOutputType t = Node.setMeta (p.setOutputType t) m := by cases p; rfl

theorem convInputShape_setMeta (p : Node) (m : Val) : convInputShape (Node.setMeta p m) = convInputShape p := by
  cases p; rfl
theorem convOutputType_setMeta (p : Node) (m : Val) (v : Val) : convOutputType (Node.setMeta p m) v = convOutputType p v := by
  cases p; rfl
theorem poolOutputType_setMeta (pre p : Node) (m1 m2 : Val) :
    poolOutputType (Node.setMeta pre m1) (Node.setMeta p m2) = poolOutputType pre p := by
  cases pre; cases p; rfl
theorem flattenShapes_setMeta (p : Node) (m : Val) : flattenShapes (Node.setMeta p m) = flattenShapes p := by
  cases p; rfl

theorem inferConv_setMeta (p : Node) (m : Val) :
    inferConv (Node.setMeta p m) = (Node.setMeta (inferConv p).1 m, (inferConv p).2) := by
  unfold inferConv
  rw [convInputShape_setMeta]
  cases convInputShape p with
  | error e => rfl
  | ok ishape =>
    simp only [setMeta_setField, convOutputType_setMeta, setMeta_setOutputType]
    cases convOutputType (p.setField "input_shape" ishape) ishape <;> rfl

theorem inferPool_setMeta (pre p : Node) (m1 m2 : Val) :
    inferPool (Node.setMeta pre m1) (Node.setMeta p m2) = (Node.setMeta (inferPool pre p).1 m2, (inferPool pre p).2) := by
  unfold inferPool
  rw [poolOutputType_setMeta]
  cases poolOutputType pre p with
  | error e => rfl
  | ok t => simp only [setMeta_setOutputType]

theorem inferFlatten_setMeta (p : Node) (m : Val) :
    inferFlatten (Node.setMeta p m) = (Node.setMeta (inferFlatten p).1 m, (inferFlatten p).2) := by
  unfold inferFlatten
  rw [flattenShapes_setMeta]
  cases flattenShapes p with
  | error e => rfl
  | ok r =>
    obtain ⟨out, b⟩ := r
    simp only [setMeta_setOutputType]
    cases b <;> rfl

theorem inferOutput_setMeta (pre post : Node) (m1 m2 : Val) :
    inferOutput (Node.setMeta pre m1) (Node.setMeta post m2) =
      (Node.setMeta (inferOutput pre post).1 m2, (inferOutput pre post).2) := by
  unfold inferOutput
  simp only [setMeta_outputType, setMeta_isKind, inferConv_setMeta, inferPool_setMeta, inferFlatten_setMeta]
  repeat' split
  all_goals rfl

/-- **The loop body is blind to metadata**: replacing the metadata of both nodes changes
nothing but the metadata of the result. -/
theorem stepNode_setMeta (pre post : Node) (m1 m2 : Val) :
    stepNode (Node.setMeta pre m1) (Node.setMeta post m2) =
      (Node.setMeta (stepNode pre post).1 m2, (stepNode pre post).2) := by
  unfold stepNode
  rw [inferInput_setMeta]
  cases inferInput pre post with
  | error e => rfl
  | ok post1 =>
    simp only [Except.map, mirrorOutput_setMeta]
    cases mirrorOutput post1 with
    | error e => rfl
    | ok post2 => simp only [Except.map, inferOutput_setMeta]

end NirVerif.Lemmas
