import NirVerif.Lemmas.FileForm
import NirVerif.Lemmas.EndToEnd

/-! # The written group is exactly the encoding of the dictionary, at every depth

`Encodes n kvs ms`: the list of links `ms` of an HDF5 group holds, for the dictionary `kvs`,
* one dataset per entry that is not a dictionary, under the entry's key, holding what `create_dataset` makes
  of the value;
* one sub-group per dictionary entry (an empty `metadata` dictionary apart), itself the encoding of that dictionary;
* no `metadata` member when the metadata is empty;
* **nothing else**; and no name twice.
`n` bounds the nesting depth. -/
namespace NirVerif.Lemmas
open NirVerif NirVerif.Py NirVerif.Model

def Encodes : Nat → List (String × Val) → List (String × H5) → Prop
  | 0, _, _ => False
  | n + 1, kvs, ms =>
    (ms.map Prod.fst).Nodup ∧
    (∀ k, lookup k kvs = none → lookup k ms = none) ∧
    (∀ k v, lookup k kvs = some v → k ≠ "metadata" → (∀ d, v ≠ .dict d) →
        ∃ ds, h5Create v = some ds ∧ lookup k ms = some (.dset ds)) ∧
    ((∀ kv ∈ kvs, kv.1 = "metadata" → kv.2 = .dict []) → lookup "metadata" ms = none) ∧
    (∀ k d, lookup k kvs = some (.dict d) → ¬ (k = "metadata" ∧ d = []) →
        ∃ sub, lookup k ms = some (.group sub) ∧ Encodes n d sub)

theorem Encodes.mono {n m : Nat} (h : n ≤ m) {kvs : List (String × Val)} {ms : List (String × H5)}
    (he : Encodes n kvs ms) : Encodes m kvs ms := by
  induction n generalizing m kvs ms with
  | zero => exact absurd he (by simp [Encodes])
  | succ n ih =>
    cases m with
    | zero => omega
    | succ m =>
      obtain ⟨h1, h2, h3, h4, h5⟩ := he
      refine ⟨h1, h2, h3, h4, ?_⟩
      intro k d hk hne
      obtain ⟨sub, hs, he'⟩ := h5 k d hk hne
      exact ⟨sub, hs, ih (by omega) he'⟩

/-- `write_lookup_group` with the bound on the fuel the sub-dictionary was written with -/
theorem write_lookup_group_lt (fuel : Nat) (kvs : List (String × Val)) (acc items : List (String × H5))
    (h : writeRecursiveFuel fuel kvs acc = .ok items) (k : String) (d : List (String × Val))
    (hk : lookup k kvs = some (.dict d)) (hne : ¬ (k = "metadata" ∧ d = [])) :
    ∃ fuel' sub, fuel' < fuel ∧ writeRecursiveFuel fuel' d [] = .ok sub ∧ lookup k items = some (.group sub) := by
  induction kvs generalizing fuel acc with
  | nil => simp [lookup] at hk
  | cons kv rest ih =>
    obtain ⟨k0, v0⟩ := kv
    cases fuel with
    | zero => simp [writeRecursiveFuel] at h
    | succ fuel =>
      simp only [writeRecursiveFuel] at h
      by_cases hk0 : (k0 == k) = true
      · have hkk : k0 = k := by simpa using hk0
        subst hkk
        simp only [lookup, hk0, if_true, Option.some.injEq] at hk
        subst hk
        have hskip : (k0 == "metadata" && d.isEmpty) = false := by
          by_cases hm : k0 = "metadata"
          · have : d ≠ [] := fun e => hne ⟨hm, e⟩
            cases d with
            | nil => exact absurd rfl this
            | cons _ _ => simp
          · have : (k0 == "metadata") = false := by simpa using hm
            simp [this]
        split at h
        · cases h
        · simp only [hskip, Bool.false_eq_true, if_false] at h
          cases hw : writeRecursiveFuel fuel d [] with
          | error e => simp [hw] at h
          | ok sub =>
            simp only [hw] at h
            split at h
            · cases h
            · rename_i acc' ha
              refine ⟨fuel, sub, Nat.lt_succ_self _, hw, ?_⟩
              apply write_preserves _ _ _ _ h
              rw [(addMember_lookup _ _ _ _ ha k0).1]; simp
      · have hk0' : (k0 == k) = false := by simpa using hk0
        simp only [lookup, hk0', Bool.false_eq_true, if_false] at hk
        split at h
        · cases h
        · split at h
          · cases h
          · obtain ⟨f', sub, hlt, hw, hl⟩ := ih _ _ h hk
            exact ⟨f', sub, Nat.lt_succ_of_lt hlt, hw, hl⟩
          · split at h
            · cases h
            · obtain ⟨f', sub, hlt, hw, hl⟩ := ih _ _ h hk
              exact ⟨f', sub, Nat.lt_succ_of_lt hlt, hw, hl⟩

/-- **`write_recursive` creates exactly the encoding of the dictionary it is given**, at every nesting depth. -/
theorem write_encodes : ∀ (fuel : Nat) (kvs : List (String × Val)) (items : List (String × H5)),
    writeRecursiveFuel fuel kvs [] = .ok items → Encodes (fuel + 1) kvs items := by
  intro fuel
  induction fuel using Nat.strongRecOn with
  | _ fuel ih =>
    intro kvs items h
    refine ⟨write_nodup fuel kvs [] items h (by simp), ?_, ?_, ?_, ?_⟩
    · intro k hk
      rw [write_no_extra fuel kvs [] items h k hk]; rfl
    · intro k v hk hnm hnd
      exact write_lookup fuel kvs [] items h k v hk hnm hnd
    · intro hm
      rw [write_skip_meta fuel kvs [] items h hm]; rfl
    · intro k d hk hne
      obtain ⟨f', sub, hlt, hw, hl⟩ := write_lookup_group_lt fuel kvs [] items h k d hk hne
      exact ⟨sub, hl, (ih f' hlt d sub hw).mono (by omega)⟩

end NirVerif.Lemmas
